//! Iterator family (C25, C26): scripts of next/reset/curr_loc against ModuleIterator and
//! ComponentIterator on generated modules/components, and equivalence of injections made through
//! a ComponentIterator with the same injections made through ModuleIterators.
//!
//! Case: {"id":N,"kind":"module"|"component","mods":[{"nimp":I,"funcs":[n0,n1,..]}],
//!        "skips":[[j,..],..]   (local-function positions per module; -1 = an ID that is not a local function)
//!        "script":["next","reset",..], "plan":[{"mod":m,"func":j,"instr":i,"mode":"before"|..}]}
use crate::common::*;
use serde_json::{json, Value as J};
use std::collections::HashMap;
use wirm::ir::id::{FunctionID, ModuleID};
use wirm::iterator::component_iterator::ComponentIterator;
use wirm::iterator::iterator_trait::{IteratingInstrumenter, Iterator as WIterator};
use wirm::iterator::module_iterator::ModuleIterator;
use wirm::opcode::{Inject, Instrumenter};
use wirm::{Component, Location, Module};

fn build_core(nimp: u64, funcs: &[u64], modno: u64) -> Vec<u8> {
    use wasm_encoder::*;
    let mut m = Module::new();
    let mut types = TypeSection::new();
    types.ty().function(vec![], vec![]);
    m.section(&types);
    if nimp > 0 {
        let mut imps = ImportSection::new();
        for k in 0..nimp {
            imps.import("env", &format!("i{}", k), EntityType::Function(0));
        }
        m.section(&imps);
    }
    if !funcs.is_empty() {
        let mut fs = FunctionSection::new();
        for _ in funcs {
            fs.function(0);
        }
        m.section(&fs);
        let mut code = CodeSection::new();
        for (j, n) in funcs.iter().enumerate() {
            let mut f = Function::new(vec![]);
            // n instructions including the final end; instruction i is identifiable by its constant
            let mut left = n - 1;
            let mut i = 0u64;
            while left >= 2 {
                f.instruction(&Instruction::I32Const((modno * 10000 + j as u64 * 100 + i) as i32));
                f.instruction(&Instruction::Drop);
                left -= 2;
                i += 2;
            }
            if left == 1 {
                f.instruction(&Instruction::Nop);
            }
            f.instruction(&Instruction::End);
            code.function(&f);
        }
        m.section(&code);
    }
    m.finish()
}

fn build_component(mods: &[J]) -> Vec<u8> {
    let mut c = wasm_encoder::Component::new();
    for (k, m) in mods.iter().enumerate() {
        let funcs: Vec<u64> = m["funcs"].as_array().unwrap().iter().map(|x| x.as_u64().unwrap()).collect();
        let bytes = build_core(m["nimp"].as_u64().unwrap(), &funcs, k as u64);
        c.section(&wasm_encoder::RawSection { id: 1, data: &bytes }); // core module section
    }
    c.finish()
}

fn skips_of(mods: &[J], skips: &J) -> Vec<Vec<u32>> {
    let mut out = vec![];
    for (k, m) in mods.iter().enumerate() {
        let nimp = m["nimp"].as_u64().unwrap() as i64;
        let nf = m["funcs"].as_array().unwrap().len() as i64;
        let mut v = vec![];
        if let Some(a) = skips.get(k).and_then(|x| x.as_array()) {
            for j in a {
                let j = j.as_i64().unwrap();
                if j < 0 {
                    v.push((nimp + nf + 7) as u32); // an ID that designates no function of the module
                } else {
                    v.push((nimp + j) as u32);
                }
            }
        }
        out.push(v);
    }
    out
}

fn opk(op: Option<&wasmparser::Operator>) -> String {
    match op {
        None => "none".into(),
        Some(wasmparser::Operator::I32Const { value }) => format!("const{}", value),
        Some(wasmparser::Operator::Drop) => "drop".into(),
        Some(wasmparser::Operator::Nop) => "nop".into(),
        Some(wasmparser::Operator::End) => "end".into(),
        Some(o) => short(&format!("{:?}", o)),
    }
}

fn loc_ev(loc: Result<((Location, bool), String), String>) -> J {
    match loc {
        Err(m) => json!({"op":"loc","panic":true,"msg":m}),
        Ok(((Location::Module { func_idx, instr_idx }, end), k)) => {
            json!({"op":"loc","panic":false,"mod":0,"fid":*func_idx,"idx":instr_idx,"end":end,"opk":k})
        }
        Ok(((Location::Component { mod_idx, func_idx, instr_idx }, end), k)) => {
            json!({"op":"loc","panic":false,"mod":*mod_idx,"fid":*func_idx,"idx":instr_idx,"end":end,"opk":k})
        }
    }
}

fn run_script(case: &J) -> J {
    let kind = case["kind"].as_str().unwrap_or("module");
    let mods: Vec<J> = case["mods"].as_array().cloned().unwrap_or_default();
    let skips = skips_of(&mods, &case["skips"]);
    let script: Vec<String> = case["script"].as_array().map(|a| a.iter().map(|x| x.as_str().unwrap().to_string()).collect()).unwrap_or_default();
    let mut evs: Vec<J> = vec![];
    let mut out = json!({"t":"iter","id":case["id"],"kind":kind,"mods":mods,"skips":skips});
    if kind == "module" {
        let m0 = &mods[0];
        let funcs: Vec<u64> = m0["funcs"].as_array().unwrap().iter().map(|x| x.as_u64().unwrap()).collect();
        let bytes = leak(build_core(m0["nimp"].as_u64().unwrap(), &funcs, 0));
        if let Err(e) = validate(bytes) {
            out["skip"] = json!(e);
            return out;
        }
        let mut module = match guarded(|| Module::parse(bytes, false)) {
            Ok(Ok(m)) => m,
            other => {
                out["skip"] = json!(format!("parse failed: {:?}", other.err()));
                return out;
            }
        };
        // optionally replace import 0 by a built function of `repl` instructions before iterating
        let repl = m0["repl"].as_u64().unwrap_or(0);
        if repl > 0 {
            let r = guarded(|| {
                use wirm::opcode::Opcode;
                let mut fb = wirm::ir::function::FunctionBuilder::new(&[], &[]);
                let mut left = repl - 1; // the builder appends the final end
                let mut i = 0u64;
                while left >= 2 {
                    fb.i32_const((900 + i) as i32);
                    fb.drop();
                    left -= 2;
                    i += 2;
                }
                if left == 1 {
                    fb.nop();
                }
                fb.replace_import_in_module(&mut module, wirm::ir::id::ImportsID(0));
            });
            if let Err(m) = r {
                out["skip"] = json!(format!("harness: replace failed: {}", m));
                return out;
            }
        }
        let sk: Vec<FunctionID> = skips[0].iter().map(|x| FunctionID(*x)).collect();
        let it = guarded(|| ModuleIterator::new(&mut module, &sk));
        match it {
            Err(m) => evs.push(json!({"op":"new","panic":true,"msg":m})),
            Ok(mut it) => {
                evs.push(json!({"op":"new","panic":false,"msg":""}));
                evs.push(loc_ev(guarded(|| (it.curr_loc(), opk(it.curr_op())))));
                for s in script.iter() {
                    match s.as_str() {
                        "next" => match guarded(|| it.next().is_some()) {
                            Ok(b) => evs.push(json!({"op":"next","panic":false,"some":b})),
                            Err(m) => {
                                evs.push(json!({"op":"next","panic":true,"msg":m,"some":false}));
                                break;
                            }
                        },
                        _ => match guarded(|| it.reset()) {
                            Ok(()) => evs.push(json!({"op":"reset","panic":false})),
                            Err(m) => {
                                evs.push(json!({"op":"reset","panic":true,"msg":m}));
                                break;
                            }
                        },
                    }
                    evs.push(loc_ev(guarded(|| (it.curr_loc(), opk(it.curr_op())))));
                }
            }
        }
    } else {
        let bytes = leak(build_component(&mods));
        if let Err(e) = validate(bytes) {
            out["skip"] = json!(e);
            return out;
        }
        let mut comp = match guarded(|| Component::parse(bytes, false)) {
            Ok(Ok(c)) => c,
            other => {
                out["skip"] = json!(format!("parse failed: {:?}", other.err()));
                return out;
            }
        };
        let mut sk: HashMap<ModuleID, Vec<FunctionID>> = HashMap::new();
        for (k, v) in skips.iter().enumerate() {
            if !v.is_empty() {
                sk.insert(ModuleID(k as u32), v.iter().map(|x| FunctionID(*x)).collect());
            }
        }
        let it = guarded(|| ComponentIterator::new(&mut comp, sk));
        match it {
            Err(m) => evs.push(json!({"op":"new","panic":true,"msg":m})),
            Ok(mut it) => {
                evs.push(json!({"op":"new","panic":false,"msg":""}));
                evs.push(loc_ev(guarded(|| (it.curr_loc(), opk(it.curr_op())))));
                for s in script.iter() {
                    match s.as_str() {
                        "next" => match guarded(|| it.next().is_some()) {
                            Ok(b) => evs.push(json!({"op":"next","panic":false,"some":b})),
                            Err(m) => {
                                evs.push(json!({"op":"next","panic":true,"msg":m,"some":false}));
                                break;
                            }
                        },
                        _ => match guarded(|| it.reset()) {
                            Ok(()) => evs.push(json!({"op":"reset","panic":false})),
                            Err(m) => {
                                evs.push(json!({"op":"reset","panic":true,"msg":m}));
                                break;
                            }
                        },
                    }
                    evs.push(loc_ev(guarded(|| (it.curr_loc(), opk(it.curr_op())))));
                }
            }
        }
    }
    out["ev"] = json!(evs);
    out
}

/// C26 second half: the same plan through a ComponentIterator and through per-module ModuleIterators
fn run_inject(case: &J) -> J {
    let mods: Vec<J> = case["mods"].as_array().cloned().unwrap_or_default();
    let plan: Vec<J> = case["plan"].as_array().cloned().unwrap_or_default();
    let mut out = json!({"t":"inj","id":case["id"],"mods":mods,"plan":plan});
    let bytes = leak(build_component(&mods));
    if let Err(e) = validate(bytes) {
        out["skip"] = json!(e);
        return out;
    }
    let probe = |p: u64| -> Vec<wasmparser::Operator<'static>> { vec![wasmparser::Operator::I32Const { value: 7000 + p as i32 }, wasmparser::Operator::Drop] };
    let target = |e: &J| -> (u32, u32, usize) {
        let m = e["mod"].as_u64().unwrap() as usize;
        let nimp = mods[m]["nimp"].as_u64().unwrap();
        (m as u32, (nimp + e["func"].as_u64().unwrap()) as u32, e["instr"].as_u64().unwrap() as usize)
    };
    // A: through the component iterator
    let a = guarded(|| {
        let mut comp = Component::parse(bytes, false).expect("parse");
        {
            let mut it = ComponentIterator::new(&mut comp, HashMap::new());
            loop {
                if let (Location::Component { mod_idx, func_idx, instr_idx }, _) = it.curr_loc() {
                    for (p, e) in plan.iter().enumerate() {
                        let (m, f, i) = target(e);
                        if *mod_idx == m && *func_idx == f && instr_idx == i {
                            match e["mode"].as_str().unwrap() {
                                "before" => {
                                    it.before();
                                }
                                "after" => {
                                    it.after();
                                }
                                "alternate" => {
                                    it.alternate();
                                }
                                "block_entry" => {
                                    it.block_entry();
                                }
                                "func_entry" => {
                                    it.func_entry();
                                }
                                "func_exit" => {
                                    it.func_exit();
                                }
                                x => panic!("mode {}", x),
                            }
                            it.inject_all(&probe(p as u64));
                            it.finish_instr();
                        }
                    }
                }
                if it.next().is_none() {
                    break;
                }
            }
        }
        comp.modules.iter_mut().map(|m| m.encode()).collect::<Vec<_>>()
    });
    // B: one module iterator per module of a second parse of the same bytes
    let b = guarded(|| {
        let mut comp = Component::parse(bytes, false).expect("parse");
        for (mi, module) in comp.modules.iter_mut().enumerate() {
            if module.get_func_metadata().is_empty() {
                continue;
            }
            let mut it = ModuleIterator::new(module, &vec![]);
            loop {
                if let (Location::Module { func_idx, instr_idx }, _) = it.curr_loc() {
                    for (p, e) in plan.iter().enumerate() {
                        let (m, f, i) = target(e);
                        if mi as u32 == m && *func_idx == f && instr_idx == i {
                            match e["mode"].as_str().unwrap() {
                                "before" => {
                                    it.before();
                                }
                                "after" => {
                                    it.after();
                                }
                                "alternate" => {
                                    it.alternate();
                                }
                                "block_entry" => {
                                    it.block_entry();
                                }
                                "func_entry" => {
                                    it.func_entry();
                                }
                                "func_exit" => {
                                    it.func_exit();
                                }
                                x => panic!("mode {}", x),
                            }
                            it.inject_all(&probe(p as u64));
                            it.finish_instr();
                        }
                    }
                }
                if it.next().is_none() {
                    break;
                }
            }
        }
        comp.modules.iter_mut().map(|m| m.encode()).collect::<Vec<_>>()
    });
    match (a, b) {
        (Ok(a), Ok(b)) => {
            out["a_panic"] = json!(false);
            out["b_panic"] = json!(false);
            out["equal"] = json!(a == b);
            // and the probes are really there (not vacuous): count marker constants in A
            let mut found = 0;
            for mbytes in a.iter() {
                for p in wasmparser::Parser::new(0).parse_all(mbytes).flatten() {
                    if let wasmparser::Payload::CodeSectionEntry(body) = p {
                        if let Ok(r) = body.get_operators_reader() {
                            for op in r.into_iter().flatten() {
                                if let wasmparser::Operator::I32Const { value } = op {
                                    if value >= 7000 && value < 7100 {
                                        found += 1;
                                    }
                                }
                            }
                        }
                    }
                }
            }
            out["probes_found"] = json!(found);
            out["valid"] = json!(a.iter().all(|m| validate(m).is_ok()));
        }
        (a, b) => {
            out["a_panic"] = json!(a.is_err());
            out["b_panic"] = json!(b.is_err());
            out["equal"] = json!(false);
            out["probes_found"] = json!(0);
            out["valid"] = json!(false);
            out["msg"] = json!(format!("{:?} / {:?}", a.err(), b.err()));
        }
    }
    out
}

pub fn main(args: &[String]) {
    let mut cases_path = String::new();
    let mut out_path = String::new();
    let mut i = 0;
    while i < args.len() {
        match args[i].as_str() {
            "--cases" => cases_path = args[i + 1].clone(),
            "--out" => out_path = args[i + 1].clone(),
            _ => panic!("unknown arg {}", args[i]),
        }
        i += 2;
    }
    // ComponentIterator::new prints its metadata to stdout: keep our summary on the last line
    let cases = read_lines(&cases_path);
    let mut out = Out::create(&out_path);
    let mut skipped = 0;
    for case in cases.iter() {
        let ev = if case.get("plan").map(|p| !p.is_null()).unwrap_or(false) { run_inject(case) } else { run_script(case) };
        if !ev["skip"].is_null() {
            skipped += 1;
        }
        out.ev(ev);
    }
    out.flush();
    println!("\n{{\"cases\":{},\"skipped\":{}}}", out.n, skipped);
}
