//! Module family (C04-C11, C29, parts of C09/C30): edit histories over the three re-indexable
//! index spaces, executed against the real wirm API, projected back to identity tokens.
//!
//! Input : ndjson cases  {"id":N,"shape":{...},"ops":[...]}   (from TLC or the random driver)
//! Output: ndjson events for spec/ModuleTrace.tla
use crate::common::*;
use serde_json::{json, Value as J};
use std::collections::HashMap;
use wasmparser::{Operator, Parser, Payload, TypeRef};
use wirm::ir::function::FunctionBuilder;
use wirm::ir::id::{ExportsID, FunctionID, GlobalID, ImportsID, MemoryID, TypeID};
use wirm::ir::types::{InitExpr, Value};
use wirm::opcode::{Inject, Instrumenter};
use wirm::{DataType, InitInstr, Location, Module, Opcode};

pub const FMARK: i32 = 100_000;
pub const SITE: i32 = 200_000;
pub const GCONST: i64 = 300_000;

type Key = (char, i64);

#[derive(Default, Clone)]
pub struct Registry {
    pub func_imp: HashMap<String, i64>,
    pub func_marker: HashMap<i32, i64>,
    pub glob_imp: HashMap<String, i64>,
    pub glob_const: HashMap<i64, i64>,
    pub glob_gg: Option<i64>,   // the only local global initialised by global.get (immutable i32)
    pub glob_ref: Option<i64>,  // the only funcref global
    pub mem_imp: HashMap<String, i64>,
    pub mem_pages: HashMap<u64, i64>,
    // sites that are not in code
    pub site_export: HashMap<String, i64>,
    pub site_start: Option<i64>,
    pub site_elem: HashMap<(usize, usize), i64>,
    pub site_elem_off: HashMap<usize, i64>,
    pub site_table_init: HashMap<usize, i64>,
    pub site_ginit: HashMap<i64, i64>, // owner global tok -> site
    pub site_data_mem: HashMap<Vec<u8>, i64>,
    pub site_data_off: HashMap<Vec<u8>, i64>,
}

pub struct Fam {
    pub reg: Registry,
    pub next_tok: HashMap<char, i64>,
    pub next_site: i64,
    pub next_gconst: i64,
    pub next_pages: u64,
    pub tok2id: HashMap<Key, u32>,
    pub tok2iid: HashMap<Key, u32>,
    pub kind: HashMap<Key, char>,
}

fn feat(shape: &J, f: &str) -> bool {
    shape["feat"].as_array().map(|a| a.iter().any(|x| x == f)).unwrap_or(false)
}

fn key_j(k: Key) -> J {
    json!([k.0.to_string(), k.1])
}

impl Fam {
    fn fresh_tok(&mut self, sp: char) -> i64 {
        let e = self.next_tok.entry(sp).or_insert(0);
        let t = *e;
        *e += 1;
        t
    }
    fn fresh_site(&mut self) -> i64 {
        self.next_site += 1;
        self.next_site
    }

    /// Build the base module for `shape`; returns (bytes, base event).
    pub fn base(shape: &J, tr: u64) -> (Fam, Vec<u8>, J) {
        let mut fam = Fam {
            reg: Registry::default(),
            next_tok: HashMap::new(),
            next_site: 0,
            next_gconst: 0,
            next_pages: 1,
            tok2id: HashMap::new(),
            tok2iid: HashMap::new(),
            kind: HashMap::new(),
        };
        let imps: Vec<char> = match &shape["imps"] {
            J::String(s) => s.chars().collect(),
            J::Array(a) => a.iter().filter_map(|x| x.as_str().and_then(|s| s.chars().next())).collect(),
            _ => vec![],
        };
        let lf = shape["lf"].as_u64().unwrap_or(0) as usize;
        let lg = shape["lg"].as_u64().unwrap_or(0) as usize;
        let lm = shape["lm"].as_u64().unwrap_or(0) as usize;
        let names = feat(shape, "names");
        let exports = feat(shape, "exports");
        let elem = feat(shape, "elem");
        // ref.func needs a declaration that survives export deletion: only with element segments
        let declared = elem;

        let mut w = String::from("(module\n  (type (func))\n");
        if feat(shape, "duptypes") {
            // structurally equal types, as every real toolchain emits them
            w += "  (type (func))\n  (type (func))\n";
        }
        let mut ents: Vec<J> = vec![];
        let mut imps_j: Vec<J> = vec![];
        let mut names_j: Vec<J> = vec![];
        let mut funcs: Vec<i64> = vec![]; // tokens in index order
        let mut globs: Vec<i64> = vec![];
        let mut mems: Vec<i64> = vec![];
        let mut ntab = 0;
        for (i, c) in imps.iter().enumerate() {
            match c {
                'f' => {
                    let t = fam.fresh_tok('f');
                    let nm = format!("if{}", t);
                    w += &format!("  (import \"env\" \"{}\" (func (type 0)))\n", nm);
                    fam.reg.func_imp.insert(format!("env.{}", nm), t);
                    fam.tok2id.insert(('f', t), funcs.len() as u32);
                    fam.tok2iid.insert(('f', t), i as u32);
                    fam.kind.insert(('f', t), 'I');
                    ents.push(json!({"k":["f",t],"kind":"I","id":funcs.len()}));
                    imps_j.push(json!(["f", t]));
                    funcs.push(t);
                }
                'g' => {
                    let t = fam.fresh_tok('g');
                    let nm = format!("ig{}", t);
                    w += &format!("  (import \"env\" \"{}\" (global i32))\n", nm);
                    fam.reg.glob_imp.insert(format!("env.{}", nm), t);
                    fam.tok2id.insert(('g', t), globs.len() as u32);
                    fam.tok2iid.insert(('g', t), i as u32);
                    fam.kind.insert(('g', t), 'I');
                    ents.push(json!({"k":["g",t],"kind":"I","id":globs.len()}));
                    imps_j.push(json!(["g", t]));
                    globs.push(t);
                }
                'm' => {
                    let t = fam.fresh_tok('m');
                    let nm = format!("im{}", t);
                    w += &format!("  (import \"env\" \"{}\" (memory 1))\n", nm);
                    fam.reg.mem_imp.insert(format!("env.{}", nm), t);
                    fam.tok2id.insert(('m', t), mems.len() as u32);
                    fam.tok2iid.insert(('m', t), i as u32);
                    fam.kind.insert(('m', t), 'I');
                    ents.push(json!({"k":["m",t],"kind":"I","id":mems.len()}));
                    imps_j.push(json!(["m", t]));
                    mems.push(t);
                }
                _ => {
                    w += &format!("  (import \"env\" \"it{}\" (table 1 funcref))\n", ntab);
                    imps_j.push(json!(["t", ntab]));
                    ntab += 1;
                }
            }
        }
        let n_imp_f = funcs.len();
        let n_imp_g = globs.len();
        for _ in 0..lf {
            let t = fam.fresh_tok('f');
            fam.tok2id.insert(('f', t), funcs.len() as u32);
            fam.kind.insert(('f', t), 'L');
            fam.reg.func_marker.insert(FMARK + t as i32, t);
            ents.push(json!({"k":["f",t],"kind":"L","id":funcs.len()}));
            funcs.push(t);
        }
        // local globals: const-initialised mutable i64, then optional gg / gref
        let mut gdefs: Vec<String> = vec![];
        for _ in 0..lg {
            let t = fam.fresh_tok('g');
            let c = GCONST + fam.next_gconst;
            fam.next_gconst += 1;
            fam.reg.glob_const.insert(c, t);
            fam.tok2id.insert(('g', t), globs.len() as u32);
            fam.kind.insert(('g', t), 'L');
            ents.push(json!({"k":["g",t],"kind":"L","id":globs.len()}));
            gdefs.push(format!("  (global (mut i64) (i64.const {}))\n", c));
            globs.push(t);
        }
        let mut sites: Vec<J> = vec![];
        if feat(shape, "gg") && n_imp_g > 0 {
            let t = fam.fresh_tok('g');
            fam.reg.glob_gg = Some(t);
            fam.tok2id.insert(('g', t), globs.len() as u32);
            fam.kind.insert(('g', t), 'L');
            ents.push(json!({"k":["g",t],"kind":"L","id":globs.len()}));
            let target = n_imp_g - 1; // the last imported global
            let s = fam.fresh_site();
            fam.reg.site_ginit.insert(t, s);
            sites.push(json!({"s":s,"k":["g",globs[target]],"owner":["g",t],"sk":"ginit_get"}));
            gdefs.push(format!("  (global i32 (global.get {}))\n", target));
            globs.push(t);
        }
        if feat(shape, "gref") && !funcs.is_empty() {
            let t = fam.fresh_tok('g');
            fam.reg.glob_ref = Some(t);
            fam.tok2id.insert(('g', t), globs.len() as u32);
            fam.kind.insert(('g', t), 'L');
            ents.push(json!({"k":["g",t],"kind":"L","id":globs.len()}));
            let target = funcs.len() - 1;
            let s = fam.fresh_site();
            fam.reg.site_ginit.insert(t, s);
            sites.push(json!({"s":s,"k":["f",funcs[target]],"owner":["g",t],"sk":"ginit_ref"}));
            gdefs.push(format!("  (global funcref (ref.func {}))\n", target));
            globs.push(t);
        }
        let n_imp_m = mems.len();
        let mut mdefs: Vec<String> = vec![];
        for _ in 0..lm {
            let t = fam.fresh_tok('m');
            fam.next_pages += 1;
            let p = fam.next_pages;
            fam.reg.mem_pages.insert(p, t);
            fam.tok2id.insert(('m', t), mems.len() as u32);
            fam.kind.insert(('m', t), 'L');
            ents.push(json!({"k":["m",t],"kind":"L","id":mems.len()}));
            mdefs.push(format!("  (memory {})\n", p));
            mems.push(t);
        }
        // feature "spare": the entity at index 0 of each space (it can never move, so references to it say least)
        // gets NO reference anywhere when it is an import with further entities behind it: deleting it is then a
        // clean deletion (nothing dangles) that shifts every other entity of the space down by one
        let spare_on = feat(shape, "spare");
        let spare_f: i64 = if spare_on && n_imp_f >= 1 && funcs.len() >= 2 { funcs[0] } else { -9 };
        let spare_g: i64 = if spare_on && n_imp_g >= 2 { globs[0] } else { -9 }; // (gg / doff / eoff use the LAST imported global)
        let spare_m: i64 = if spare_on && n_imp_m >= 1 && mems.len() >= 2 { mems[0] } else { -9 };
        // ... and so does the LAST local entity of a space when there are at least two locals (a clean deletion at
        // the tail: nothing moves, exactly one entity must disappear)
        let spare_lf: i64 = if spare_on && lf >= 2 { funcs[funcs.len() - 1] } else { -9 };
        let spare_lm: i64 = if spare_on && lm >= 2 { mems[mems.len() - 1] } else { -9 };
        let has_data = feat(shape, "data") && !mems.is_empty();
        // function bodies
        for j in 0..lf {
            let ft = funcs[n_imp_f + j];
            let owner = json!(["f", ft]);
            let mut b = format!("  (func (type 0) (local i32)\n    i32.const {} drop\n", FMARK + ft as i32);
            let full = j == 0;
            let mut site = |fam: &mut Fam, sites: &mut Vec<J>, sp: &str, tok: i64, sk: &str| -> i64 {
                let s = fam.fresh_site();
                sites.push(json!({"s":s,"k":[sp,tok],"owner":owner,"sk":sk}));
                s
            };
            for (i, &t) in funcs.iter().enumerate() {
                if t == spare_f || t == spare_lf {
                    continue;
                }
                let s = site(&mut fam, &mut sites, "f", t, "call");
                b += &format!("    i32.const {} drop call {}\n", SITE as i64 + s, i);
                if full && declared {
                    let s = site(&mut fam, &mut sites, "f", t, "ref_func");
                    b += &format!("    i32.const {} drop ref.func {} drop\n", SITE as i64 + s, i);
                }
                if full && feat(shape, "tail") {
                    let s = site(&mut fam, &mut sites, "f", t, "return_call");
                    b += &format!("    block i32.const {} drop return_call {} end\n", SITE as i64 + s, i);
                }
            }
            for (i, &t) in globs.iter().enumerate() {
                if t == spare_g {
                    continue;
                }
                let s = site(&mut fam, &mut sites, "g", t, "global_get");
                b += &format!("    i32.const {} drop global.get {} drop\n", SITE as i64 + s, i);
                if full && i >= n_imp_g && i < n_imp_g + lg {
                    let s = site(&mut fam, &mut sites, "g", t, "global_set");
                    b += &format!("    i32.const {} drop i64.const 0 global.set {}\n", SITE as i64 + s, i);
                }
            }
            for (i, &t) in mems.iter().enumerate() {
                if t == spare_m || t == spare_lm {
                    continue;
                }
                let s = site(&mut fam, &mut sites, "m", t, "mem_load");
                b += &format!("    i32.const {} drop i32.const 0 i32.load {} drop\n", SITE as i64 + s, i);
                if full {
                    {
                        // memory.copy carries two memory indices: one site per index (dst first)
                        for (j, &t2) in mems.iter().enumerate() {
                            if t2 == spare_m || t2 == spare_lm {
                                continue;
                            }
                            let s1 = site(&mut fam, &mut sites, "m", t, "mem_copy_dst");
                            let s2 = site(&mut fam, &mut sites, "m", t2, "mem_copy_src");
                            b += &format!(
                                "    i32.const {} drop i32.const {} drop i32.const 0 i32.const 0 i32.const 0 memory.copy {} {}\n",
                                SITE as i64 + s1, SITE as i64 + s2, i, j
                            );
                        }
                    }
                    let mut op = |sk: &str, code: String| {
                        let s = site(&mut fam, &mut sites, "m", t, sk);
                        b += &format!("    i32.const {} drop {}\n", SITE as i64 + s, code);
                    };
                    op("mem_store", format!("i32.const 0 i32.const 0 i32.store {}", i));
                    op("mem_size", format!("memory.size {} drop", i));
                    op("mem_grow", format!("i32.const 0 memory.grow {} drop", i));
                    op("mem_fill", format!("i32.const 0 i32.const 0 i32.const 0 memory.fill {}", i));
                    if has_data {
                        op("mem_init", format!("i32.const 0 i32.const 0 i32.const 0 memory.init {} 0", i));
                    }
                    if feat(shape, "atomics") {
                        op("atomic_load32", format!("i32.const 0 i32.atomic.load {} drop", i));
                        op("atomic_load64", format!("i32.const 0 i64.atomic.load {} drop", i));
                        op("atomic_store", format!("i32.const 0 i32.const 0 i32.atomic.store {}", i));
                        op("atomic_rmw", format!("i32.const 0 i32.const 0 i32.atomic.rmw.add {} drop", i));
                        op("atomic_rmw64", format!("i32.const 0 i64.const 0 i64.atomic.rmw.xchg {} drop", i));
                        op("atomic_cmpxchg", format!("i32.const 0 i32.const 0 i32.const 0 i32.atomic.rmw.cmpxchg {} drop", i));
                        op("atomic_notify", format!("i32.const 0 i32.const 0 memory.atomic.notify {} drop", i));
                        op("v128_load", format!("i32.const 0 v128.load {} drop", i));
                    }
                }
            }
            if full && feat(shape, "allmem") && mems.len() >= 2 {
                // every memarg-carrying instruction the decoder knows (in unreachable code, where any operand
                // types validate), spread over the memories whose index can move (all but memory 0)
                let ops = crate::memops::discover();
                let nm = mems.len();
                let mem_of = |k: usize| (1 + k % (nm - 1)) as u32;
                let lines = crate::memops::wat_lines(&ops, nm as u32, &mem_of);
                b += "    unreachable\n";
                for (k, line) in lines.iter().enumerate() {
                    let t = mems[mem_of(k) as usize];
                    let s = site(&mut fam, &mut sites, "m", t, &format!("op_{}", ops[k].name));
                    b += &format!("    i32.const {} drop {} drop\n", SITE as i64 + s, line);
                }
            }
            b += "  )\n";
            w += &b;
        }
        // tables
        let need_table = elem || feat(shape, "tinit");
        let mut tinit_done = false;
        if need_table {
            if feat(shape, "tinit") && !funcs.is_empty() {
                let s = fam.fresh_site();
                fam.reg.site_table_init.insert(ntab, s);
                sites.push(json!({"s":s,"k":["f",funcs[0]],"owner":["x",0],"sk":"table_init"}));
                w += &format!("  (table {} funcref (ref.func 0))\n", funcs.len() + 4);
                tinit_done = true;
            } else {
                w += &format!("  (table {} funcref)\n", funcs.len() + 4);
            }
        }
        let _ = tinit_done;
        for m in mdefs {
            w += &m;
        }
        for g in gdefs {
            w += &g;
        }
        if exports {
            for (i, &t) in funcs.iter().enumerate() {
                if t == spare_f || t == spare_lf {
                    continue;
                }
                let nm = format!("ef{}", t);
                let s = fam.fresh_site();
                fam.reg.site_export.insert(nm.clone(), s);
                sites.push(json!({"s":s,"k":["f",t],"owner":["x",0],"sk":"export"}));
                w += &format!("  (export \"{}\" (func {}))\n", nm, i);
            }
            for (i, &t) in globs.iter().enumerate() {
                if t == spare_g {
                    continue;
                }
                let nm = format!("eg{}", t);
                let s = fam.fresh_site();
                fam.reg.site_export.insert(nm.clone(), s);
                sites.push(json!({"s":s,"k":["g",t],"owner":["x",0],"sk":"export"}));
                w += &format!("  (export \"{}\" (global {}))\n", nm, i);
            }
            for (i, &t) in mems.iter().enumerate() {
                if t == spare_m || t == spare_lm {
                    continue;
                }
                let nm = format!("em{}", t);
                let s = fam.fresh_site();
                fam.reg.site_export.insert(nm.clone(), s);
                sites.push(json!({"s":s,"k":["m",t],"owner":["x",0],"sk":"export"}));
                w += &format!("  (export \"{}\" (memory {}))\n", nm, i);
            }
        }
        if feat(shape, "start") && lf > 0 {
            let i = funcs.len() - 1;
            let s = fam.fresh_site();
            fam.reg.site_start = Some(s);
            sites.push(json!({"s":s,"k":["f",funcs[i]],"owner":["x",0],"sk":"start"}));
            w += &format!("  (start {})\n", i);
        }
        let mut nseg = 0usize;
        if elem && !funcs.is_empty() {
            let table = ntab; // the local table comes after imported ones
            let mut l = String::new();
            let mut e = String::new();
            for (i, &t) in funcs.iter().enumerate() {
                let s = fam.fresh_site();
                fam.reg.site_elem.insert((nseg, i), s);
                sites.push(json!({"s":s,"k":["f",t],"owner":["x",0],"sk":"elem_func"}));
                l += &format!(" {}", i);
                let s = fam.fresh_site();
                fam.reg.site_elem.insert((nseg + 1, i), s);
                sites.push(json!({"s":s,"k":["f",t],"owner":["x",0],"sk":"elem_expr"}));
                e += &format!(" (ref.func {})", i);
            }
            w += &format!("  (elem (table {}) (i32.const 0) func{})\n", table, l);
            w += &format!("  (elem funcref{})\n", e);
            nseg += 2;
            if feat(shape, "eoff") && n_imp_g > 0 {
                let s = fam.fresh_site();
                fam.reg.site_elem_off.insert(nseg, s);
                // the LAST imported global: its index moves when an earlier import is deleted
                sites.push(json!({"s":s,"k":["g",globs[n_imp_g - 1]],"owner":["x",0],"sk":"elem_off"}));
                w += &format!("  (elem (table {}) (offset (global.get {})) func)\n", table, n_imp_g - 1);
                nseg += 1;
            }
        }
        let _ = nseg;
        if has_data {
            w += "  (data \"P\")\n";
            for (i, &t) in mems.iter().enumerate() {
                if t == spare_m || t == spare_lm {
                    continue;
                }
                let s = fam.fresh_site();
                let content = format!("D{}", s).into_bytes();
                fam.reg.site_data_mem.insert(content.clone(), s);
                sites.push(json!({"s":s,"k":["m",t],"owner":["x",0],"sk":"data_mem"}));
                w += &format!("  (data (memory {}) (i32.const 0) \"D{}\")\n", i, s);
            }
            if feat(shape, "doff") && n_imp_g > 0 {
                let s = fam.fresh_site();
                let s2 = fam.fresh_site();
                let content = format!("O{}", s).into_bytes();
                fam.reg.site_data_mem.insert(content.clone(), s);
                fam.reg.site_data_off.insert(content, s2);
                sites.push(json!({"s":s,"k":["m",mems[0]],"owner":["x",0],"sk":"data_mem"}));
                sites.push(json!({"s":s2,"k":["g",globs[n_imp_g - 1]],"owner":["x",0],"sk":"data_off"}));
                w += &format!("  (data (memory 0) (offset (global.get {})) \"O{}\")\n", n_imp_g - 1, s);
            }
        }
        w += ")\n";
        let mut bytes = wat::parse_str(&w).unwrap_or_else(|e| panic!("base wat: {}\n{}", e, w));
        if names {
            use wasm_encoder::{IndirectNameMap, NameMap, NameSection};
            let mut ns = NameSection::new();
            let mut fnm = NameMap::new();
            let mut lnm = IndirectNameMap::new();
            for (i, &t) in funcs.iter().enumerate() {
                let n = format!("fn{}", t);
                fnm.append(i as u32, &n);
                names_j.push(json!({"nk":["f",t],"ent":["f",t],"name":n}));
                if i >= n_imp_f {
                    let mut one = NameMap::new();
                    let n = format!("ln{}", t);
                    one.append(0, &n);
                    lnm.append(i as u32, &one);
                    names_j.push(json!({"nk":["l",t*16],"ent":["f",t],"name":n}));
                }
            }
            ns.functions(&fnm);
            ns.locals(&lnm);
            let mut mnm = NameMap::new();
            for (i, &t) in mems.iter().enumerate() {
                let n = format!("mn{}", t);
                mnm.append(i as u32, &n);
                names_j.push(json!({"nk":["m",t],"ent":["m",t],"name":n}));
            }
            ns.memories(&mnm);
            let mut gnm = NameMap::new();
            for (i, &t) in globs.iter().enumerate() {
                let n = format!("gn{}", t);
                gnm.append(i as u32, &n);
                names_j.push(json!({"nk":["g",t],"ent":["g",t],"name":n}));
            }
            ns.globals(&gnm);
            use wasm_encoder::Section;
            ns.append_to(&mut bytes);
        }
        if let Err(e) = validate(&bytes) {
            panic!("generated base module is invalid: {}\n{}", e, w);
        }
        let ev = json!({"t":"base","tr":tr,"ents":ents,"imps":imps_j,"sites":sites,"names":names_j});
        (fam, bytes, ev)
    }
}

// ------------------------------------------------------------------------------------------
// alpha: decode an encoded module back to tokens
// ------------------------------------------------------------------------------------------

pub struct Obs {
    pub valid: Result<(), String>,
    pub f: Vec<i64>,
    pub g: Vec<i64>,
    pub m: Vec<i64>,
    pub sites: Vec<(i64, i64)>,
    pub names: Vec<J>,
}

fn const_expr_ops<'a>(e: &wasmparser::ConstExpr<'a>) -> Vec<Operator<'a>> {
    let mut r = e.get_operators_reader();
    let mut v = vec![];
    while let Ok(op) = r.read() {
        if let Operator::End = op {
            break;
        }
        v.push(op);
    }
    v
}

/// the (space, index) an operator embeds, if any
fn op_refs(op: &Operator) -> Vec<(char, u32)> {
    if let Operator::MemoryCopy { dst_mem, src_mem } = op {
        return vec![('m', *dst_mem), ('m', *src_mem)];
    }
    op_ref(op).into_iter().collect()
}

fn op_ref(op: &Operator) -> Option<(char, u32)> {
    use Operator::*;
    Some(match op {
        Call { function_index } | RefFunc { function_index } | ReturnCall { function_index } => ('f', *function_index),
        GlobalGet { global_index } | GlobalSet { global_index } => ('g', *global_index),
        GlobalAtomicGet { global_index, .. } | GlobalAtomicSet { global_index, .. } => ('g', *global_index),
        GlobalAtomicRmwAdd { global_index, .. } | GlobalAtomicRmwSub { global_index, .. } | GlobalAtomicRmwAnd { global_index, .. }
        | GlobalAtomicRmwOr { global_index, .. } | GlobalAtomicRmwXor { global_index, .. } | GlobalAtomicRmwXchg { global_index, .. }
        | GlobalAtomicRmwCmpxchg { global_index, .. } => ('g', *global_index),
        MemorySize { mem } | MemoryGrow { mem } | MemoryFill { mem } | MemoryDiscard { mem } => ('m', *mem),
        MemoryInit { mem, .. } => ('m', *mem),
        MemoryCopy { dst_mem, src_mem } => {
            if dst_mem == src_mem {
                ('m', *dst_mem)
            } else {
                ('m', u32::MAX)
            }
        }
        _ => {
            if let Some(m) = crate::memops::memarg_of(op) {
                ('m', m.memory)
            } else {
                return None;
            }
        }
    })
}

pub fn alpha(reg: &Registry, bytes: &[u8]) -> Result<Obs, String> {
    let mut obs = Obs { valid: validate(bytes), f: vec![], g: vec![], m: vec![], sites: vec![], names: vec![] };
    let mut n_imp_f = 0usize;
    let mut bodies: Vec<wasmparser::FunctionBody> = vec![];
    let mut exports: Vec<(String, wasmparser::ExternalKind, u32)> = vec![];
    let mut start: Option<u32> = None;
    let mut raw_sites: Vec<(i64, char, u32)> = vec![]; // site, space, index
    let mut ginits: Vec<(i64, Vec<(char, u32)>)> = vec![]; // owner tok, refs
    let mut fnames: Vec<(u32, String)> = vec![];
    let mut lnames: Vec<(u32, u32, String)> = vec![];
    let mut gnames: Vec<(u32, String)> = vec![];
    let mut mnames: Vec<(u32, String)> = vec![];
    let mut table_idx = 0usize;
    let mut seg = 0usize;
    for p in Parser::new(0).parse_all(bytes) {
        let p = p.map_err(|e| format!("alpha parse: {}", e))?;
        match p {
            Payload::ImportSection(r) => {
                for i in r {
                    let i = i.map_err(|e| e.to_string())?;
                    let nm = format!("{}.{}", i.module, i.name);
                    match i.ty {
                        TypeRef::Func(_) => {
                            obs.f.push(*reg.func_imp.get(&nm).unwrap_or(&-1));
                            n_imp_f += 1;
                        }
                        TypeRef::Global(_) => obs.g.push(*reg.glob_imp.get(&nm).unwrap_or(&-1)),
                        TypeRef::Memory(_) => obs.m.push(*reg.mem_imp.get(&nm).unwrap_or(&-1)),
                        TypeRef::Table(_) => table_idx += 1,
                        _ => {}
                    }
                }
            }
            Payload::TableSection(r) => {
                for t in r {
                    let t = t.map_err(|e| e.to_string())?;
                    if let wasmparser::TableInit::Expr(e) = t.init {
                        if let Some(s) = reg.site_table_init.get(&table_idx) {
                            for op in const_expr_ops(&e) {
                                if let Some((sp, idx)) = op_ref(&op) {
                                    raw_sites.push((*s, sp, idx));
                                }
                            }
                        }
                    }
                    table_idx += 1;
                }
            }
            Payload::MemorySection(r) => {
                for m in r {
                    let m = m.map_err(|e| e.to_string())?;
                    obs.m.push(*reg.mem_pages.get(&m.initial).unwrap_or(&-1));
                }
            }
            Payload::GlobalSection(r) => {
                for g in r {
                    let g = g.map_err(|e| e.to_string())?;
                    let ops = const_expr_ops(&g.init_expr);
                    let tok = match ops.as_slice() {
                        [Operator::I64Const { value }] => *reg.glob_const.get(value).unwrap_or(&-1),
                        [Operator::GlobalGet { .. }] if !g.ty.mutable => reg.glob_gg.unwrap_or(-1),
                        [Operator::RefFunc { .. }] => reg.glob_ref.unwrap_or(-1),
                        _ => -1,
                    };
                    obs.g.push(tok);
                    let refs: Vec<(char, u32)> = ops.iter().filter_map(op_ref).collect();
                    if !refs.is_empty() {
                        ginits.push((tok, refs));
                    }
                }
            }
            Payload::ExportSection(r) => {
                for e in r {
                    let e = e.map_err(|e| e.to_string())?;
                    exports.push((e.name.to_string(), e.kind, e.index));
                }
            }
            Payload::StartSection { func, .. } => start = Some(func),
            Payload::ElementSection(r) => {
                for el in r {
                    let el = el.map_err(|e| e.to_string())?;
                    if let wasmparser::ElementKind::Active { offset_expr, .. } = &el.kind {
                        if let Some(s) = reg.site_elem_off.get(&seg) {
                            for op in const_expr_ops(offset_expr) {
                                if let Some((sp, idx)) = op_ref(&op) {
                                    raw_sites.push((*s, sp, idx));
                                }
                            }
                        }
                    }
                    match el.items {
                        wasmparser::ElementItems::Functions(fr) => {
                            for (slot, f) in fr.into_iter().enumerate() {
                                let f = f.map_err(|e| e.to_string())?;
                                if let Some(s) = reg.site_elem.get(&(seg, slot)) {
                                    raw_sites.push((*s, 'f', f));
                                }
                            }
                        }
                        wasmparser::ElementItems::Expressions(_, er) => {
                            for (slot, e) in er.into_iter().enumerate() {
                                let e = e.map_err(|e| e.to_string())?;
                                if let Some(s) = reg.site_elem.get(&(seg, slot)) {
                                    for op in const_expr_ops(&e) {
                                        if let Some((sp, idx)) = op_ref(&op) {
                                            raw_sites.push((*s, sp, idx));
                                        }
                                    }
                                }
                            }
                        }
                    }
                    seg += 1;
                }
            }
            Payload::DataSection(r) => {
                for d in r {
                    let d = d.map_err(|e| e.to_string())?;
                    if let wasmparser::DataKind::Active { memory_index, offset_expr } = &d.kind {
                        if let Some(s) = reg.site_data_mem.get(d.data) {
                            raw_sites.push((*s, 'm', *memory_index));
                        }
                        if let Some(s) = reg.site_data_off.get(d.data) {
                            for op in const_expr_ops(offset_expr) {
                                if let Some((sp, idx)) = op_ref(&op) {
                                    raw_sites.push((*s, sp, idx));
                                }
                            }
                        }
                    }
                }
            }
            Payload::CodeSectionEntry(b) => bodies.push(b),
            Payload::CustomSection(c) => {
                if let wasmparser::KnownCustom::Name(nr) = c.as_known() {
                    for sub in nr {
                        let sub = match sub {
                            Ok(s) => s,
                            Err(_) => break,
                        };
                        match sub {
                            wasmparser::Name::Function(nm) => {
                                for n in nm.into_iter().flatten() {
                                    fnames.push((n.index, n.name.to_string()));
                                }
                            }
                            wasmparser::Name::Local(inm) => {
                                for f in inm.into_iter().flatten() {
                                    for n in f.names.into_iter().flatten() {
                                        lnames.push((f.index, n.index, n.name.to_string()));
                                    }
                                }
                            }
                            wasmparser::Name::Global(nm) => {
                                for n in nm.into_iter().flatten() {
                                    gnames.push((n.index, n.name.to_string()));
                                }
                            }
                            wasmparser::Name::Memory(nm) => {
                                for n in nm.into_iter().flatten() {
                                    mnames.push((n.index, n.name.to_string()));
                                }
                            }
                            _ => {}
                        }
                    }
                }
            }
            _ => {}
        }
    }
    // local functions: marker, then code sites
    for b in bodies.iter() {
        let ops: Vec<Operator> = b
            .get_operators_reader()
            .map_err(|e| e.to_string())?
            .into_iter()
            .collect::<Result<Vec<_>, _>>()
            .map_err(|e| e.to_string())?;
        let mut tok = -1;
        let mut pending: std::collections::VecDeque<i64> = std::collections::VecDeque::new();
        let mut i = 0;
        while i < ops.len() {
            if let Operator::I32Const { value } = ops[i] {
                if i + 1 < ops.len() && matches!(ops[i + 1], Operator::Drop) {
                    if value >= FMARK && value < SITE {
                        if tok == -1 {
                            tok = *reg.func_marker.get(&value).unwrap_or(&-1);
                        }
                        i += 2;
                        continue;
                    } else if value >= SITE && value < SITE + 100_000 {
                        pending.push_back((value - SITE) as i64);
                        i += 2;
                        continue;
                    }
                }
            }
            if !pending.is_empty() {
                for (sp, idx) in op_refs(&ops[i]) {
                    if let Some(s) = pending.pop_front() {
                        raw_sites.push((s, sp, idx));
                    }
                }
            }
            i += 1;
        }
        obs.f.push(tok);
    }
    let _ = n_imp_f;
    for (name, kind, idx) in exports {
        if let Some(s) = reg.site_export.get(&name) {
            let sp = match kind {
                wasmparser::ExternalKind::Func => 'f',
                wasmparser::ExternalKind::Global => 'g',
                wasmparser::ExternalKind::Memory => 'm',
                _ => continue,
            };
            raw_sites.push((*s, sp, idx));
        }
    }
    if let (Some(s), Some(f)) = (reg.site_start, start) {
        raw_sites.push((s, 'f', f));
    }
    for (owner, refs) in ginits {
        if let Some(s) = reg.site_ginit.get(&owner) {
            for (sp, idx) in refs {
                raw_sites.push((*s, sp, idx));
            }
        }
    }
    let look = |obs: &Obs, sp: char, idx: u32| -> i64 {
        let v = match sp {
            'f' => &obs.f,
            'g' => &obs.g,
            _ => &obs.m,
        };
        v.get(idx as usize).copied().unwrap_or(-1)
    };
    for (s, sp, idx) in raw_sites {
        let t = look(&obs, sp, idx);
        obs.sites.push((s, t));
    }
    for (i, n) in fnames {
        let t = look(&obs, 'f', i);
        obs.names.push(json!({"nk":["f",t],"ent":["f",t],"name":n}));
    }
    for (fi, li, n) in lnames {
        let t = look(&obs, 'f', fi);
        obs.names.push(json!({"nk":["l",t*16 + li as i64],"ent":["f",t],"name":n}));
    }
    for (i, n) in gnames {
        let t = look(&obs, 'g', i);
        obs.names.push(json!({"nk":["g",t],"ent":["g",t],"name":n}));
    }
    for (i, n) in mnames {
        let t = look(&obs, 'm', i);
        obs.names.push(json!({"nk":["m",t],"ent":["m",t],"name":n}));
    }
    Ok(obs)
}

// ------------------------------------------------------------------------------------------
// executing one case
// ------------------------------------------------------------------------------------------

fn sp_of(j: &J) -> char {
    j.as_str().and_then(|s| s.chars().next()).unwrap_or('f')
}

struct Run {
    events: Vec<J>,
    outs: Vec<Option<Vec<u8>>>, // bytes of each first encode (None = panic)
}

fn site_ops<'a>(sk: &str, s: i64, id: u32) -> Vec<Operator<'a>> {
    let mk = Operator::I32Const { value: SITE + s as i32 };
    let z = Operator::I32Const { value: 0 };
    let ma = |m: u32, a: u8| wasmparser::MemArg { align: a, max_align: a, offset: 0, memory: m };
    let mut v = vec![mk, Operator::Drop];
    match sk {
        "call" => v.push(Operator::Call { function_index: id }),
        "ref_func" => {
            v.push(Operator::RefFunc { function_index: id });
            v.push(Operator::Drop)
        }
        "return_call" => {
            v = vec![
                Operator::Block { blockty: wasmparser::BlockType::Empty },
                Operator::I32Const { value: SITE + s as i32 },
                Operator::Drop,
                Operator::ReturnCall { function_index: id },
                Operator::End,
            ]
        }
        "global_get" => {
            v.push(Operator::GlobalGet { global_index: id });
            v.push(Operator::Drop)
        }
        "global_set" => {
            v.push(Operator::I64Const { value: 0 });
            v.push(Operator::GlobalSet { global_index: id })
        }
        "mem_load" => {
            v.push(z.clone());
            v.push(Operator::I32Load { memarg: ma(id, 2) });
            v.push(Operator::Drop)
        }
        "mem_store" => {
            v.push(z.clone());
            v.push(z.clone());
            v.push(Operator::I32Store { memarg: ma(id, 2) })
        }
        "mem_size" => {
            v.push(Operator::MemorySize { mem: id });
            v.push(Operator::Drop)
        }
        "mem_grow" => {
            v.push(z.clone());
            v.push(Operator::MemoryGrow { mem: id });
            v.push(Operator::Drop)
        }
        "mem_copy" => {
            v.push(z.clone());
            v.push(z.clone());
            v.push(z.clone());
            v.push(Operator::MemoryCopy { dst_mem: id, src_mem: id })
        }
        "atomic_load64" => {
            v.push(z.clone());
            v.push(Operator::I64AtomicLoad { memarg: ma(id, 3) });
            v.push(Operator::Drop)
        }
        "atomic_rmw" => {
            v.push(z.clone());
            v.push(z.clone());
            v.push(Operator::I32AtomicRmwAdd { memarg: ma(id, 2) });
            v.push(Operator::Drop)
        }
        "atomic_cmpxchg" => {
            v.push(z.clone());
            v.push(z.clone());
            v.push(z.clone());
            v.push(Operator::I32AtomicRmwCmpxchg { memarg: ma(id, 2) });
            v.push(Operator::Drop)
        }
        "v128_load" => {
            v.push(z.clone());
            v.push(Operator::V128Load { memarg: ma(id, 4) });
            v.push(Operator::Drop)
        }
        _ => panic!("unknown site kind {}", sk),
    }
    v
}

fn run_once(case: &J, tr: u64, enc2: bool) -> Run {
    let shape = &case["shape"];
    let (mut fam, bytes, base_ev) = Fam::base(shape, tr);
    let mut run = Run { events: vec![base_ev], outs: vec![] };
    let bytes = leak(bytes);
    let mut module = match guarded(|| Module::parse(bytes, true)) {
        Ok(Ok(m)) => m,
        Ok(Err(e)) => {
            run.events.push(json!({"t":"parse_fail","tr":tr,"msg":short(&format!("{:?}", e))}));
            return run;
        }
        Err(p) => {
            run.events.push(json!({"t":"parse_fail","tr":tr,"msg":p}));
            return run;
        }
    };
    let empty = vec![];
    let ops = case["ops"].as_array().unwrap_or(&empty);
    for op in ops {
        let name = op["op"].as_str().unwrap_or("");
        let mut ev = json!({"t":"call","tr":tr,"op":"","panic":false});
        macro_rules! need_id {
            ($sp:expr, $tok:expr) => {
                match fam.tok2id.get(&($sp, $tok)) {
                    Some(x) => *x,
                    None => continue, // entity was never successfully created: op not issued
                }
            };
        }
        match name {
            "encode" => {
                let r = guarded(|| module.encode());
                match r {
                    Err(msg) => {
                        run.outs.push(None);
                        run.events.push(json!({"t":"encode","tr":tr,"panic":true,"msg":msg}));
                    }
                    Ok(out) => {
                        let obs = match alpha(&fam.reg, &out) {
                            Ok(o) => o,
                            Err(e) => Obs { valid: Err(e), f: vec![], g: vec![], m: vec![], sites: vec![], names: vec![] },
                        };
                        let mut second: Option<Vec<u8>> = None;
                        let (same2, valid2) = if enc2 {
                            match guarded(|| module.encode()) {
                                Ok(o2) => {
                                    let r = (o2 == out, validate(&o2).is_ok());
                                    if !r.0 {
                                        second = Some(o2);
                                    }
                                    r
                                }
                                Err(_) => (false, false),
                            }
                        } else {
                            (true, true)
                        };
                        let sites: Vec<J> = obs.sites.iter().map(|(s, t)| json!({"s":s,"tok":t})).collect();
                        run.events.push(json!({"t":"encode","tr":tr,"panic":false,
                            "valid":obs.valid.is_ok(),"err":obs.valid.clone().err().unwrap_or_default(),
                            "f":obs.f,"g":obs.g,"m":obs.m,"sites":sites,"names":obs.names,
                            "same2":same2,"valid2":valid2,"nd":false}));
                        run.outs.push(Some(out));
                        // a second encoding that differs is an encoded module of its own: it is judged like the first
                        if let Some(o2) = second {
                            if let Ok(obs2) = alpha(&fam.reg, &o2) {
                                let sites2: Vec<J> = obs2.sites.iter().map(|(s, t)| json!({"s":s,"tok":t})).collect();
                                run.events.push(json!({"t":"encode","tr":tr,"panic":false,"second":true,
                                    "valid":obs2.valid.is_ok(),"err":obs2.valid.clone().err().unwrap_or_default(),
                                    "f":obs2.f,"g":obs2.g,"m":obs2.m,"sites":sites2,"names":obs2.names,
                                    "same2":true,"valid2":true,"nd":false}));
                            }
                        }
                    }
                }
                continue;
            }
            "add_local_func" => {
                let t = fam.fresh_tok('f');
                let marker = FMARK + t as i32;
                fam.reg.func_marker.insert(marker, t);
                let r = guarded(|| {
                    let mut fb = FunctionBuilder::new(&[], &[]);
                    fb.i32_const(marker);
                    fb.drop();
                    fb.finish_module(&mut module)
                });
                ev["op"] = json!("add");
                ev["sp"] = json!("f");
                ev["kind"] = json!("L");
                ev["tok"] = json!(t);
                ev["iid"] = json!(-1);
                match r {
                    Ok(id) => {
                        ev["id"] = json!(*id);
                        fam.tok2id.insert(('f', t), *id);
                        fam.kind.insert(('f', t), 'L');
                    }
                    Err(m) => {
                        ev["panic"] = json!(true);
                        ev["msg"] = json!(m);
                    }
                }
            }
            "add_import_func" => {
                let t = fam.fresh_tok('f');
                let nm = format!("af{}", t);
                fam.reg.func_imp.insert(format!("added.{}", nm), t);
                let dup = feat(shape, "duptypes");
                let r = guarded(|| {
                    let ty = if dup { module.types.add_func_type(&[], &[], None) } else { TypeID(0) };
                    module.add_import_func("added".to_string(), nm.clone(), ty)
                });
                ev["op"] = json!("add");
                ev["sp"] = json!("f");
                ev["kind"] = json!("I");
                ev["tok"] = json!(t);
                match r {
                    Ok((id, iid)) => {
                        ev["id"] = json!(*id);
                        ev["iid"] = json!(*iid);
                        fam.tok2id.insert(('f', t), *id);
                        fam.tok2iid.insert(('f', t), *iid);
                        fam.kind.insert(('f', t), 'I');
                    }
                    Err(m) => {
                        ev["panic"] = json!(true);
                        ev["msg"] = json!(m);
                    }
                }
            }
            "add_global" => {
                let t = fam.fresh_tok('g');
                let c = GCONST + fam.next_gconst;
                fam.next_gconst += 1;
                fam.reg.glob_const.insert(c, t);
                let via_iter = op["via"].as_str() == Some("iter");
                let r = guarded(|| {
                    if via_iter {
                        use wirm::ir::module::module_globals::{Global, GlobalKind, LocalGlobal};
                        use wirm::iterator::iterator_trait::IteratingInstrumenter;
                        use wirm::iterator::module_iterator::ModuleIterator;
                        let mut it = ModuleIterator::new(&mut module, &vec![]);
                        it.add_global(Global::new(
                            GlobalKind::Local(LocalGlobal {
                                global_id: GlobalID(0),
                                ty: wasmparser::GlobalType { content_type: wasmparser::ValType::I64, mutable: true, shared: false },
                                init_expr: InitExpr::new(vec![InitInstr::Value(Value::I64(c))]),
                            }),
                            None,
                        ))
                    } else {
                        module.add_global(InitExpr::new(vec![InitInstr::Value(Value::I64(c))]), DataType::I64, true, false)
                    }
                });
                ev["op"] = json!("add");
                ev["sp"] = json!("g");
                ev["kind"] = json!("L");
                ev["tok"] = json!(t);
                ev["iid"] = json!(-1);
                ev["via"] = json!(if via_iter { "iter" } else { "module" });
                match r {
                    Ok(id) => {
                        ev["id"] = json!(*id);
                        fam.tok2id.insert(('g', t), *id);
                        fam.kind.insert(('g', t), 'L');
                    }
                    Err(m) => {
                        ev["panic"] = json!(true);
                        ev["msg"] = json!(m);
                    }
                }
            }
            "add_imported_global" => {
                let t = fam.fresh_tok('g');
                let nm = format!("ag{}", t);
                fam.reg.glob_imp.insert(format!("added.{}", nm), t);
                let r = guarded(|| module.add_imported_global("added".to_string(), nm.clone(), DataType::I32, false, false));
                ev["op"] = json!("add");
                ev["sp"] = json!("g");
                ev["kind"] = json!("I");
                ev["tok"] = json!(t);
                match r {
                    Ok((id, iid)) => {
                        ev["id"] = json!(*id);
                        ev["iid"] = json!(*iid);
                        fam.tok2id.insert(('g', t), *id);
                        fam.tok2iid.insert(('g', t), *iid);
                        fam.kind.insert(('g', t), 'I');
                    }
                    Err(m) => {
                        ev["panic"] = json!(true);
                        ev["msg"] = json!(m);
                    }
                }
            }
            "add_local_memory" => {
                let t = fam.fresh_tok('m');
                fam.next_pages += 1;
                let p = fam.next_pages;
                fam.reg.mem_pages.insert(p, t);
                let r = guarded(|| {
                    module.add_local_memory(wasmparser::MemoryType { memory64: false, shared: false, initial: p, maximum: None, page_size_log2: None })
                });
                ev["op"] = json!("add");
                ev["sp"] = json!("m");
                ev["kind"] = json!("L");
                ev["tok"] = json!(t);
                ev["iid"] = json!(-1);
                match r {
                    Ok(id) => {
                        ev["id"] = json!(*id);
                        fam.tok2id.insert(('m', t), *id);
                        fam.kind.insert(('m', t), 'L');
                    }
                    Err(m) => {
                        ev["panic"] = json!(true);
                        ev["msg"] = json!(m);
                    }
                }
            }
            "add_import_memory" => {
                let t = fam.fresh_tok('m');
                let nm = format!("am{}", t);
                fam.reg.mem_imp.insert(format!("added.{}", nm), t);
                let r = guarded(|| {
                    module.add_import_memory(
                        "added".to_string(),
                        nm.clone(),
                        wasmparser::MemoryType { memory64: false, shared: false, initial: 1, maximum: None, page_size_log2: None },
                    )
                });
                ev["op"] = json!("add");
                ev["sp"] = json!("m");
                ev["kind"] = json!("I");
                ev["tok"] = json!(t);
                match r {
                    Ok((id, iid)) => {
                        ev["id"] = json!(*id);
                        ev["iid"] = json!(*iid);
                        fam.tok2id.insert(('m', t), *id);
                        fam.tok2iid.insert(('m', t), *iid);
                        fam.kind.insert(('m', t), 'I');
                    }
                    Err(m) => {
                        ev["panic"] = json!(true);
                        ev["msg"] = json!(m);
                    }
                }
            }
            "delete" => {
                let sp = sp_of(&op["sp"]);
                let tok = op["tok"].as_i64().unwrap();
                let id = need_id!(sp, tok);
                let r = guarded(|| match sp {
                    'f' => module.delete_func(FunctionID(id)),
                    'g' => module.delete_global(GlobalID(id)),
                    _ => module.delete_memory(MemoryID(id)),
                });
                ev["op"] = json!("delete");
                ev["sp"] = json!(sp.to_string());
                ev["id"] = json!(id);
                if let Err(m) = r {
                    ev["panic"] = json!(true);
                    ev["msg"] = json!(m);
                }
            }
            "conv_l2i" => {
                let tok = op["tok"].as_i64().unwrap();
                let id = need_id!('f', tok);
                let t = fam.fresh_tok('f');
                let nm = format!("cf{}", t);
                fam.reg.func_imp.insert(format!("conv.{}", nm), t);
                let r = guarded(|| module.convert_local_fn_to_import(FunctionID(id), "conv".to_string(), nm.clone(), TypeID(0)));
                ev["op"] = json!("conv_l2i");
                ev["id"] = json!(id);
                ev["tok"] = json!(t);
                match r {
                    Ok(ret) => {
                        ev["ret"] = json!(ret);
                        let iid = module.imports.find("conv".to_string(), nm.clone()).map(|x| *x as i64).unwrap_or(-1);
                        ev["iid"] = json!(iid);
                        if ret {
                            fam.tok2id.insert(('f', t), id);
                            fam.tok2iid.insert(('f', t), iid as u32);
                            fam.kind.insert(('f', t), 'I');
                            fam.tok2id.remove(&('f', tok));
                        }
                    }
                    Err(m) => {
                        ev["panic"] = json!(true);
                        ev["msg"] = json!(m);
                    }
                }
            }
            "replace_import" => {
                let tok = op["tok"].as_i64().unwrap();
                let iid = match fam.tok2iid.get(&('f', tok)) {
                    Some(x) => *x,
                    None => continue,
                };
                let id = need_id!('f', tok);
                let t = fam.fresh_tok('f');
                let marker = FMARK + t as i32;
                fam.reg.func_marker.insert(marker, t);
                let r = guarded(|| {
                    let mut fb = FunctionBuilder::new(&[], &[]);
                    fb.i32_const(marker);
                    fb.drop();
                    fb.replace_import_in_module(&mut module, ImportsID(iid));
                });
                ev["op"] = json!("replace_import");
                ev["iid"] = json!(iid);
                ev["tok"] = json!(t);
                match r {
                    Ok(()) => {
                        fam.tok2id.insert(('f', t), id);
                        fam.kind.insert(('f', t), 'L');
                        fam.tok2id.remove(&('f', tok));
                        fam.tok2iid.remove(&('f', tok));
                    }
                    Err(m) => {
                        ev["panic"] = json!(true);
                        ev["msg"] = json!(m);
                    }
                }
            }
            "inject" => {
                // {"op":"inject","sk":"call","sp":"f","tok":T,"owner":FT}
                let sp = sp_of(&op["sp"]);
                let tok = op["tok"].as_i64().unwrap();
                let owner = op["owner"].as_i64().unwrap();
                let sk = op["sk"].as_str().unwrap().to_string();
                let id = need_id!(sp, tok);
                let oid = need_id!('f', owner);
                if fam.kind.get(&('f', owner)) != Some(&'L') {
                    continue;
                }
                // mem_copy2: a memory.copy whose destination is the chosen memory and whose source is ANOTHER memory
                // (the youngest other one): two reference sites in one instruction
                let mut second: Option<(i64, u32)> = None;
                if sk == "mem_copy2" {
                    let other = fam.tok2id.iter().filter(|((c, t), _)| *c == 'm' && *t != tok).map(|((_, t), i)| (*t, *i)).max();
                    match other {
                        Some((_, id2)) => second = Some((0, id2)),
                        None => continue,
                    }
                }
                let s = fam.fresh_site();
                let code = if let Some((_, id2)) = second {
                    let s2 = fam.fresh_site();
                    second = Some((s2, id2));
                    vec![
                        Operator::I32Const { value: SITE + s as i32 },
                        Operator::Drop,
                        Operator::I32Const { value: SITE + s2 as i32 },
                        Operator::Drop,
                        Operator::I32Const { value: 0 },
                        Operator::I32Const { value: 0 },
                        Operator::I32Const { value: 0 },
                        Operator::MemoryCopy { dst_mem: id, src_mem: id2 },
                    ]
                } else {
                    site_ops(&sk, s, id)
                };
                let sk = if second.is_some() { "mem_copy_dst".to_string() } else { sk };
                let via = op["via"].as_str().unwrap_or("modifier").to_string();
                let r = guarded(|| {
                    let mut fm = module.functions.get_fn_modifier(FunctionID(oid)).expect("no modifier");
                    let loc = Location::Module { func_idx: FunctionID(oid), instr_idx: 0 };
                    if via == "after" {
                        fm.after_at(loc);
                    } else {
                        fm.before_at(loc);
                    }
                    fm.inject_all(&code);
                });
                ev["op"] = json!("inject");
                ev["s"] = json!(s);
                ev["sp"] = json!(sp.to_string());
                ev["id"] = json!(id);
                ev["osp"] = json!("f");
                ev["oid"] = json!(oid);
                ev["sk"] = json!(sk);
                if let Err(m) = r {
                    ev["panic"] = json!(true);
                    ev["msg"] = json!(m);
                } else if let Some((s2, id2)) = second {
                    // the source operand is a reference site of its own
                    let mut e2 = ev.clone();
                    e2["s"] = json!(s2);
                    e2["id"] = json!(id2);
                    e2["sk"] = json!("mem_copy_src");
                    run.events.push(ev);
                    ev = e2;
                }
            }
            "add_export" => {
                let sp = sp_of(&op["sp"]);
                let tok = op["tok"].as_i64().unwrap();
                let id = need_id!(sp, tok);
                let s = fam.fresh_site();
                let nm = format!("x{}", s);
                fam.reg.site_export.insert(nm.clone(), s);
                let r = guarded(|| match sp {
                    'f' => module.exports.add_export_func(nm.clone(), id, None),
                    _ => module.exports.add_export_mem(nm.clone(), id, None),
                });
                ev["op"] = json!("inject");
                ev["s"] = json!(s);
                ev["sp"] = json!(sp.to_string());
                ev["id"] = json!(id);
                ev["osp"] = json!("x");
                ev["oid"] = json!(0);
                ev["sk"] = json!("export");
                if let Err(m) = r {
                    ev["panic"] = json!(true);
                    ev["msg"] = json!(m);
                }
            }
            "delete_export" => {
                // delete the base export of entity (sp,tok)
                let sp = sp_of(&op["sp"]);
                let tok = op["tok"].as_i64().unwrap();
                let nm = format!("e{}{}", sp, tok);
                let s = match fam.reg.site_export.get(&nm) {
                    Some(s) => *s,
                    None => continue,
                };
                let r = guarded(|| {
                    let eid: ExportsID = module.exports.get_export_id_by_name(nm.clone()).expect("export not found");
                    module.exports.delete(eid)
                });
                ev["op"] = json!("remove_site");
                ev["s"] = json!(s);
                if let Err(m) = r {
                    ev["panic"] = json!(true);
                    ev["msg"] = json!(m);
                }
            }
            "set_name" => {
                let tok = op["tok"].as_i64().unwrap();
                let id = need_id!('f', tok);
                let via = op["via"].as_str().unwrap_or("module").to_string();
                let nm = format!("renamed{}_{}", tok, run.events.len());
                let r = guarded(|| match via.as_str() {
                    "module" => module.set_fn_name(FunctionID(id), nm.clone()),
                    "functions" => {
                        if !module.functions.set_local_fn_name(FunctionID(id), nm.clone()) {
                            panic!("set_local_fn_name returned false");
                        }
                    }
                    _ => {
                        let iid = fam.tok2iid.get(&('f', tok)).copied().expect("no imports id");
                        module.imports.set_name(nm.clone(), ImportsID(iid))
                    }
                });
                ev["op"] = json!("set_name");
                ev["sp"] = json!("f");
                ev["id"] = json!(id);
                ev["name"] = json!(nm);
                ev["via"] = json!(via);
                if let Err(m) = r {
                    ev["panic"] = json!(true);
                    ev["msg"] = json!(m);
                }
            }
            "mod_init" => {
                // {"op":"mod_init","tok":G,"to":"const"|"global"|"func","ref":T}
                let tok = op["tok"].as_i64().unwrap();
                let id = need_id!('g', tok);
                let to = op["to"].as_str().unwrap_or("const");
                if to != "const" {
                    continue; // only constant re-initialisation is driven for now
                }
                let c = GCONST + fam.next_gconst;
                fam.next_gconst += 1;
                let r = guarded(|| module.mod_global_init_expr(GlobalID(id), InitExpr::new(vec![InitInstr::Value(Value::I64(c))])));
                match r {
                    Ok(()) => {
                        // the global is now recognised by its new constant
                        fam.reg.glob_const.retain(|_, v| *v != tok);
                        fam.reg.glob_const.insert(c, tok);
                        continue; // no Ideal state change: identity, references and names stay
                    }
                    Err(_) => continue,
                }
            }
            _ => panic!("unknown op {}", name),
        }
        run.events.push(ev);
    }
    run
}

pub fn main(args: &[String]) {
    let mut cases_path = String::new();
    let mut out_path = String::new();
    let mut reps = 2usize;
    let mut hashes_in: Option<String> = None;
    let mut hashes_out: Option<String> = None;
    let mut i = 0;
    while i < args.len() {
        match args[i].as_str() {
            "--cases" => {
                cases_path = args[i + 1].clone();
                i += 1
            }
            "--out" => {
                out_path = args[i + 1].clone();
                i += 1
            }
            "--reps" => {
                reps = args[i + 1].parse().unwrap();
                i += 1
            }
            "--hashes-in" => {
                hashes_in = Some(args[i + 1].clone());
                i += 1
            }
            "--hashes-out" => {
                hashes_out = Some(args[i + 1].clone());
                i += 1
            }
            _ => panic!("unknown arg {}", args[i]),
        }
        i += 1;
    }
    let cases = read_lines(&cases_path);
    let prev: HashMap<String, String> = match &hashes_in {
        Some(p) => serde_json::from_str(&std::fs::read_to_string(p).unwrap()).unwrap(),
        None => HashMap::new(),
    };
    let mut cur: HashMap<String, String> = HashMap::new();
    let mut out = Out::create(&out_path);
    let mut n_traces = 0u64;
    for (ci, case) in cases.iter().enumerate() {
        let tr = case["id"].as_u64().unwrap_or(ci as u64 + 1);
        let mut first = run_once(case, tr, true);
        // determinism: same input, same calls, again (fresh HashMap seeds) ...
        let mut nd = false;
        for _ in 1..reps {
            let again = run_once(case, tr, true);
            if again.outs != first.outs {
                nd = true;
            }
        }
        // ... and against another process
        let hk = format!("{}", tr);
        let hv = format!("{:?}", first.outs.iter().map(|o| o.as_ref().map(|b| fnv(b))).collect::<Vec<_>>());
        if let Some(p) = prev.get(&hk) {
            if *p != hv {
                nd = true;
            }
        }
        cur.insert(hk, hv);
        if nd {
            for ev in first.events.iter_mut() {
                if ev["t"] == "encode" && ev["panic"] == false {
                    ev["nd"] = json!(true);
                }
            }
        }
        for ev in first.events {
            out.ev(ev);
        }
        n_traces += 1;
    }
    out.flush();
    if let Some(p) = hashes_out {
        std::fs::write(p, serde_json::to_string(&cur).unwrap()).unwrap();
    }
    println!("{{\"traces\":{},\"events\":{}}}", n_traces, out.n);
}

fn fnv(b: &[u8]) -> u64 {
    let mut h: u64 = 0xcbf29ce484222325;
    for x in b {
        h ^= *x as u64;
        h = h.wrapping_mul(0x100000001b3);
    }
    h
}
