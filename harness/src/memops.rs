//! Memory-immediate extraction that does not depend on wirm's own operator lists.
use wasmparser::{MemArg, Operator};

/// The MemArg of any operator that carries one (found through the Debug rendering, so that every
/// present and future `memarg`-carrying variant of wasmparser::Operator is covered).
pub fn memarg_of(op: &Operator) -> Option<MemArg> {
    let s = format!("{:?}", op);
    let p = s.find("MemArg {")?;
    let rest = &s[p..];
    let field = |name: &str| -> Option<u64> {
        let q = rest.find(name)? + name.len();
        let digits: String = rest[q..].chars().take_while(|c| c.is_ascii_digit()).collect();
        digits.parse().ok()
    };
    Some(MemArg {
        align: field("align: ")? as u8,
        max_align: field("max_align: ")? as u8,
        offset: field("offset: ")?,
        memory: field("memory: ")? as u32,
    })
}

/// One memarg-carrying instruction discovered from the decoder itself.
pub struct MemOp {
    /// variant name of wasmparser::Operator
    pub name: String,
    prefix: Option<u8>,
    code: u32,
    max_align: u8,
    /// bytes that follow the memarg (a lane index)
    tail: usize,
}

fn leb(mut v: u32, out: &mut Vec<u8>) {
    loop {
        let b = (v & 0x7f) as u8;
        v >>= 7;
        if v == 0 {
            out.push(b);
            break;
        }
        out.push(b | 0x80);
    }
}

impl MemOp {
    /// the instruction's bytes with memory index `mem`, natural alignment, offset 0
    pub fn bytes(&self, mem: u32) -> Vec<u8> {
        let mut b = vec![];
        match self.prefix {
            Some(p) => {
                b.push(p);
                leb(self.code, &mut b);
            }
            None => b.push(self.code as u8),
        }
        leb(0x40 | self.max_align as u32, &mut b); // bit 6: an explicit memory index follows
        leb(mem, &mut b);
        leb(0, &mut b); // offset
        for _ in 0..self.tail {
            b.push(0);
        }
        b
    }
}

/// Every instruction that carries a MemArg, found by asking wasmparser to decode all opcodes (so that the list
/// cannot lag behind the decoder, and does not come from wirm's own tables).
pub fn discover() -> Vec<MemOp> {
    let mut out: Vec<MemOp> = vec![];
    let mut seen = std::collections::HashSet::new();
    for prefix in [None, Some(0xFCu8), Some(0xFD), Some(0xFE)] {
        let max = if prefix.is_none() { 0xff } else { 0x1ff };
        for code in 0..=max {
            let mut b = vec![];
            match prefix {
                Some(p) => {
                    b.push(p);
                    leb(code, &mut b);
                }
                None => b.push(code as u8),
            }
            let head = b.len();
            leb(0x40, &mut b);
            leb(5, &mut b); // memory index 5
            leb(0, &mut b);
            let after_memarg = b.len();
            b.extend_from_slice(&[0, 0, 0x0b, 0x0b]);
            let mut r = wasmparser::OperatorsReader::new(wasmparser::BinaryReader::new(&b, 0));
            let Ok(op) = r.read() else { continue };
            let Some(m) = memarg_of(&op) else { continue };
            if m.memory != 5 {
                continue;
            }
            let used = r.original_position();
            if used < after_memarg || used - after_memarg > 1 {
                continue;
            }
            let name = format!("{:?}", op).split(|c: char| c == ' ' || c == '{').next().unwrap_or("").to_string();
            if !seen.insert(name.clone()) {
                continue;
            }
            let _ = head;
            out.push(MemOp { name, prefix, code, max_align: m.max_align, tail: used - after_memarg });
        }
    }
    out
}

/// WAT text of each discovered instruction for memory index `mem` (through wasmprinter, so that the base modules,
/// which are written as text, can contain them).  The instructions sit in unreachable code of the mini module.
pub fn wat_lines(ops: &[MemOp], nmem: u32, mem_of: &dyn Fn(usize) -> u32) -> Vec<String> {
    use wasm_encoder::*;
    let mut m = Module::new();
    let mut t = TypeSection::new();
    t.ty().function(vec![], vec![]);
    m.section(&t);
    let mut f = FunctionSection::new();
    f.function(0);
    m.section(&f);
    let mut ms = MemorySection::new();
    for _ in 0..nmem {
        ms.memory(MemoryType { minimum: 1, maximum: None, memory64: false, shared: false, page_size_log2: None });
    }
    m.section(&ms);
    let mut body = vec![0u8]; // no locals
    body.push(0x00); // unreachable
    for (k, op) in ops.iter().enumerate() {
        body.extend_from_slice(&op.bytes(mem_of(k)));
        body.push(0x01); // nop as a separator
    }
    body.push(0x0b);
    let mut code = vec![];
    leb(1, &mut code);
    leb(body.len() as u32, &mut code);
    code.extend_from_slice(&body);
    m.section(&RawSection { id: 10, data: &code });
    let bytes = m.finish();
    let text = wasmprinter::print_bytes(&bytes).expect("print mini module");
    // the instructions between `unreachable` and the end, one per `nop` separator
    let mut lines = vec![];
    let mut cur = String::new();
    let mut started = false;
    for l in text.lines() {
        let l = l.trim();
        if !started {
            if l == "unreachable" {
                started = true;
            }
            continue;
        }
        if l == "nop" {
            lines.push(cur.trim().to_string());
            cur.clear();
        } else if l.starts_with(')') {
            break;
        } else {
            cur.push(' ');
            cur += l;
        }
    }
    assert_eq!(lines.len(), ops.len(), "wasmprinter text does not split per instruction:\n{}", text);
    lines
}
