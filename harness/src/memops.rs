//! Memory-immediate extraction that does not depend on wirm's own operator lists.
use wasmparser::{MemArg, Operator};

/// The MemArg of any operator that carries one (found through the Debug rendering, so that every
/// present and future `memarg`-carrying variant of wasmparser::Operator is covered).
pub fn memarg_of(op: &Operator) -> Option<MemArg> {
    let s = format!("{:?}", op);
    let p = s.find("MemArg {")?;
    let rest = &s[p..];
    let field = |name: &str| -> Option<u64> {
        let q = rest.find(name)? + name.len();
        let digits: String = rest[q..].chars().take_while(|c| c.is_ascii_digit()).collect();
        digits.parse().ok()
    };
    Some(MemArg {
        align: field("align: ")? as u8,
        max_align: field("max_align: ")? as u8,
        offset: field("offset: ")?,
        memory: field("memory: ")? as u32,
    })
}
