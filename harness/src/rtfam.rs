//! Round-trip family (C01, C02, feeding C03): parse -> encode of unmodified modules.
//! Inputs: (a) TLC-generated (value type x position) and section-shape cases, (b) the repository's
//! fixtures and the wasm-tools .wast corpora (every module directive, valid or not).
//!
//! Case: {"id":N,"kind":"vt","vt":{..},"pos":"param"} | {"kind":"wat","wat":"(module ..)"} | {"kind":"corpus"}
use crate::common::*;
use serde_json::{json, Value as J};
use wirm::{Component, Module};

fn vt_text(vt: &J) -> String {
    match vt["k"].as_str().unwrap() {
        "num" => vt["t"].as_str().unwrap().to_string(),
        _ => {
            let heap = vt["heap"].as_str().unwrap();
            let h = if heap == "concrete" { "$s".to_string() } else { heap.to_string() };
            let h = if vt["shared"].as_bool().unwrap_or(false) { format!("(shared {})", h) } else { h };
            if vt["null"].as_bool().unwrap_or(false) {
                format!("(ref null {})", h)
            } else {
                format!("(ref {})", h)
            }
        }
    }
}

/// a module that uses value type `t` at `pos`
pub fn vt_module(vt: &J, pos: &str) -> String {
    let t = vt_text(vt);
    let pre = "(module (type $s (struct)) ";
    let body = match pos {
        "param" => format!("(func (param {}))", t),
        "result" => format!("(func (result {}) unreachable)", t),
        "local" => format!("(func (local {}))", t),
        "global_import" => format!("(import \"m\" \"g\" (global {}))", t),
        "global_mut_import" => format!("(import \"m\" \"g\" (global (mut {})))", t),
        "table_import" => format!("(import \"m\" \"t\" (table 0 {}))", t),
        "struct_field" => format!("(type (struct (field (mut {}))))", t),
        "array_elem" => format!("(type (array {}))", t),
        "block_result" => format!("(func (block (result {}) unreachable) drop)", t),
        "select" => format!("(func unreachable (select (result {})) drop)", t),
        "tag_param" => format!("(tag (param {}))", t),
        "type_param" => format!("(type (func (param {}) (result {})))", t, t),
        "import_func" => format!("(import \"m\" \"f\" (func (param {})))", t),
        _ => panic!("pos {}", pos),
    };
    format!("{}{})", pre, body)
}

/// a module assembled from independent section features (C01/C02 section shapes, constant payloads)
pub fn shape_module(feat: &[String]) -> Vec<u8> {
    let has = |f: &str| feat.iter().any(|x| x == f);
    let mut w = String::from("(module $shape\n");
    if has("rec") {
        // three explicit recursion groups (2, 1 and 2 members), the last one referring back into the first
        w += "  (rec (type $a (struct (field (ref null $b)))) (type $b (struct (field (ref null $a)))))\n";
        w += "  (rec (type $c (array (mut i64))))\n";
        w += "  (rec (type $d (struct (field (ref null $e)) (field (ref null $a)))) (type $e (func (param (ref null $d)))))\n";
    }
    w += "  (type $t0 (func))\n  (type $t1 (func (param i32 f64) (result i64)))\n";
    if has("dup_types") {
        w += "  (type (func))\n  (type (func (param i32 f64) (result i64)))\n";
    }
    if has("imports") {
        // a non-function import ahead of named function imports (function index != import position)
        w += "  (import \"env\" \"g\" (global $ig i32))\n  (import \"env\" \"f\" (func $if (type $t0)))\n  (import \"env\" \"f2\" (func $if2 (type $t0)))\n";
        if has("memory") {
            w += "  (import \"env\" \"m\" (memory 1 2))\n";
        }
        w += "  (import \"env\" \"t\" (table 1 funcref))\n";
        if has("tag") {
            // an imported tag: it belongs to no function/global/memory/table index space
            w += "  (import \"env\" \"tg\" (tag $itg (param i32)))\n";
        }
    }
    if has("tag") {
        w += "  (tag $tg (param i32))\n";
    }
    w += "  (func $f0 (type $t0) (local $l0 i32) (local f32 f32) (local $l3 i64)\n    i32.const -1 local.set $l0 f32.const nan:0x200001 drop f64.const -nan:0x8000000000001 drop\n    v128.const i32x4 0xffffffff 0x80000000 1 0 drop i64.const -9223372036854775808 drop)\n";
    w += "  (func $f1 (type $t1) (local externref) local.get 0 i64.extend_i32_s)\n";
    if has("exports") {
        // block types naming NON-nullable abstract references (f0 is declared by its export)
        w += "  (func $fr (type $t0) (block (result (ref func)) ref.func $f0) drop (block (result (ref extern)) unreachable) drop (block (result funcref) ref.null func) drop)\n";
    }
    if has("table") {
        w += "  (table $tb 4 8 funcref)\n";
    }
    if has("memory") {
        w += "  (memory $mm 1)\n";
        if has("mem64") {
            w += "  (memory $m64 i64 1 3)\n";
        }
    }
    if has("memory") {
        // code that names every memory through every family of memory-indexed instructions; copies go
        // BETWEEN different memories (and between a 64-bit and a 32-bit one) so that dst and src cannot be confused
        w += "  (func $fm (type $t0)\n    i32.const 0 i32.load $mm drop i32.const 0 i32.const 1 i32.store8 $mm offset=3\n";
        w += "    i32.const 0 i32.const 7 i32.const 2 memory.fill $mm memory.size $mm drop i32.const 0 memory.grow $mm drop\n";
        w += "    i32.const 0 v128.load $mm drop i32.const 0 v128.const i64x2 1 2 v128.store64_lane $mm 1\n";
        w += "    i32.const 0 i64.atomic.load $mm drop i32.const 0 i32.const 1 i32.atomic.rmw.add $mm drop i32.const 0 i32.const 1 i32.const 2 i32.atomic.rmw.cmpxchg $mm drop\n";
        if has("imports") {
            w += "    i32.const 0 i32.const 4 i32.const 2 memory.copy 0 $mm i32.const 0 i32.const 4 i32.const 2 memory.copy $mm 0 i32.const 0 i64.load 0 drop\n";
        }
        if has("mem64") {
            w += "    i64.const 0 i32.const 4 i32.const 2 memory.copy $m64 $mm i32.const 0 i64.const 4 i32.const 2 memory.copy $mm $m64\n";
            w += "    i64.const 0 f32.load $m64 drop i64.const 0 i32.const 7 i64.const 2 memory.fill $m64 memory.size $m64 drop\n";
        }
        if has("data") {
            w += "    i32.const 0 i32.const 0 i32.const 1 memory.init $mm 1 data.drop 1\n";
        }
        w += "  )\n";
        // every memarg-carrying instruction the decoder knows, spread over all memories (unreachable code: any
        // operand types validate there)
        let nmem = (if has("imports") { 1 } else { 0 }) + 1 + (if has("mem64") { 1 } else { 0 });
        let ops = crate::memops::discover();
        let mem_of = |k: usize| (k % nmem) as u32;
        let lines = crate::memops::wat_lines(&ops, nmem as u32, &mem_of);
        w += "  (func $allmem (type $t0)\n    unreachable\n";
        for l in lines.iter() {
            w += &format!("    {} drop\n", l);
        }
        w += "  )\n";
    }
    if has("globals") {
        w += "  (global $g0 (mut i32) (i32.const -7))\n  (global $g1 f32 (f32.const -nan:0x7fffff))\n  (global $g2 f64 (f64.const nan:0x4000000000001))\n";
        w += "  (global $g3 v128 (v128.const i64x2 0x8000000000000001 -1))\n  (global $g4 funcref (ref.func $f0))\n  (global $g5 (mut i64) (i64.const 9223372036854775807))\n";
        if has("imports") {
            w += "  (global $g6 i32 (global.get $ig))\n";
        }
    }
    if has("exports") {
        w += "  (export \"f0\" (func $f0))\n  (export \"f1\" (func $f1))\n";
        if has("globals") {
            w += "  (export \"g0\" (global $g0))\n";
        }
        if has("memory") {
            w += "  (export \"mem\" (memory $mm))\n";
        }
        if has("table") {
            w += "  (export \"tab\" (table $tb))\n";
        }
    }
    if has("start") {
        w += "  (start $f0)\n";
    }
    if has("elem") {
        if has("table") {
            w += "  (elem (table $tb) (i32.const 1) func $f0 $f1)\n  (elem (table $tb) (offset (i32.const 0)) funcref (ref.func $f1))\n";
        }
        w += "  (elem funcref (ref.func $f0) (ref.null func))\n  (elem declare func $f1)\n";
    }
    if has("data") && has("memory") {
        w += "  (data (memory $mm) (i32.const 8) \"\\00\\ff\\80abc\")\n  (data \"passive\")\n";
        if has("mem64") {
            w += "  (data (memory $m64) (i64.const 16) \"x\")\n";
        }
    }
    w += ")\n";
    let mut bytes = wat::parse_str(&w).unwrap_or_else(|e| panic!("shape wat: {}\n{}", e, w));
    // custom sections: appended at the end (before and after the name section wat produced)
    if has("customs") {
        use wasm_encoder::Section;
        wasm_encoder::CustomSection { name: "zz.first".into(), data: (&[1u8, 2, 3][..]).into() }.append_to(&mut bytes);
        wasm_encoder::CustomSection { name: "producers".into(), data: (&[0u8][..]).into() }.append_to(&mut bytes);
        wasm_encoder::CustomSection { name: "zz.first".into(), data: (&[9u8][..]).into() }.append_to(&mut bytes);
    }
    if has("names_front") {
        // custom sections may sit anywhere: move the name section in front of every other section (the parser then
        // reads the names before it knows how many functions are imported)
        use wasm_encoder::Section;
        let mut front = bytes[..8].to_vec();
        let mut rest = vec![];
        for p in wasmparser::Parser::new(0).parse_all(&bytes) {
            let p = p.expect("shape parses");
            let is_name = matches!(&p, wasmparser::Payload::CustomSection(c) if c.name() == "name");
            if let Some((id, range)) = p.as_section() {
                let raw = wasm_encoder::RawSection { id, data: &bytes[range] };
                if is_name {
                    raw.append_to(&mut front);
                } else {
                    raw.append_to(&mut rest);
                }
            }
        }
        front.extend_from_slice(&rest);
        bytes = front;
    }
    bytes
}

fn first_diff(a: &str, b: &str) -> (String, String) {
    let mut ia = a.lines();
    let mut ib = b.lines();
    loop {
        match (ia.next(), ib.next()) {
            (Some(x), Some(y)) => {
                if x != y {
                    return (short(x.trim()), short(y.trim()));
                }
            }
            (Some(x), None) => return (short(x.trim()), "<eof>".into()),
            (None, Some(y)) => return ("<eof>".into(), short(y.trim())),
            (None, None) => return (String::new(), String::new()),
        }
    }
}

/// section of a module text a line belongs to (by its leading keyword)
fn section_of(line: &str) -> String {
    let l = line.trim_start_matches('(').trim();
    let kw: String = l.chars().take_while(|c| c.is_ascii_alphanumeric() || *c == '.' || *c == '_' || *c == '@').collect();
    match kw.as_str() {
        "type" | "rec" | "import" | "func" | "table" | "memory" | "global" | "export" | "start" | "elem" | "data" | "tag" | "@custom" | "@producers" => kw,
        "" => "?".into(),
        _ => "code".into(),
    }
}

pub fn roundtrip(bytes: &'static [u8], is_component: bool, ev: &mut J) {
    let vin = validate(bytes);
    ev["valid_in"] = json!(vin.is_ok());
    let text_in = wasmprinter::print_bytes(bytes).ok();
    if is_component {
        match guarded(|| Component::parse(bytes, true)) {
            Ok(Ok(mut c)) => {
                ev["parse"] = json!("ok");
                match guarded(|| c.encode()) {
                    Ok(o) => finish_rt(&o, text_in, ev, guarded(|| c.encode()).ok()),
                    Err(m) => {
                        ev["encode_panic"] = json!(true);
                        ev["msg"] = json!(m);
                    }
                }
            }
            Ok(Err(e)) => {
                ev["parse"] = json!("err");
                ev["msg"] = json!(short(&format!("{:?}", e)));
            }
            Err(m) => {
                ev["parse"] = json!("panic");
                ev["msg"] = json!(m);
            }
        }
    } else {
        match guarded(|| Module::parse(bytes, true)) {
            Ok(Ok(mut m)) => {
                ev["parse"] = json!("ok");
                match guarded(|| m.encode()) {
                    Ok(o) => finish_rt(&o, text_in, ev, guarded(|| m.encode()).ok()),
                    Err(msg) => {
                        ev["encode_panic"] = json!(true);
                        ev["msg"] = json!(msg);
                    }
                }
            }
            Ok(Err(e)) => {
                ev["parse"] = json!("err");
                ev["msg"] = json!(short(&format!("{:?}", e)));
            }
            Err(m) => {
                ev["parse"] = json!("panic");
                ev["msg"] = json!(m);
            }
        }
    }
}

fn finish_rt(out: &[u8], text_in: Option<String>, ev: &mut J, second: Option<Vec<u8>>) {
    ev["encode_panic"] = json!(false);
    let v = validate(out);
    ev["valid_out"] = json!(v.is_ok());
    ev["err"] = json!(v.err().unwrap_or_default());
    let text_out = wasmprinter::print_bytes(out).ok();
    match (text_in, text_out) {
        (Some(a), Some(b)) => {
            ev["same_text"] = json!(a == b);
            if a != b {
                let (x, y) = first_diff(&a, &b);
                ev["diff_sec"] = json!(if x == "<eof>" { section_of(&y) } else { section_of(&x) });
                ev["diff_in"] = json!(x);
                ev["diff_out"] = json!(y);
            }
        }
        (a, b) => {
            ev["same_text"] = json!(false);
            ev["diff_sec"] = json!("unprintable");
            ev["diff_in"] = json!(if a.is_some() { "printed" } else { "print failed" });
            ev["diff_out"] = json!(if b.is_some() { "printed" } else { "print failed" });
        }
    }
    ev["same2"] = json!(second.map(|s| s == out).unwrap_or(false));
}

fn defaults(ev: &mut J) {
    for (k, v) in [
        ("parse", json!("none")),
        ("msg", json!("")),
        ("valid_in", json!(false)),
        ("valid_out", json!(false)),
        ("err", json!("")),
        ("encode_panic", json!(false)),
        ("same_text", json!(true)),
        ("diff_sec", json!("")),
        ("diff_in", json!("")),
        ("diff_out", json!("")),
        ("same2", json!(true)),
    ] {
        if ev[k].is_null() {
            ev[k] = v;
        }
    }
}

fn walk(dir: &std::path::Path, out: &mut Vec<std::path::PathBuf>) {
    if let Ok(rd) = std::fs::read_dir(dir) {
        let mut v: Vec<_> = rd.flatten().map(|e| e.path()).collect();
        v.sort();
        for p in v {
            if p.is_dir() {
                walk(&p, out);
            } else {
                out.push(p);
            }
        }
    }
}

/// every module of the repository's fixtures and .wast corpora: (label, bytes, is_component, expected_valid)
pub fn corpus() -> Vec<(String, Vec<u8>, bool)> {
    let mut files = vec![];
    walk(std::path::Path::new("/repo/tests/test_inputs"), &mut files);
    walk(std::path::Path::new("/repo/tests/wasm-tools"), &mut files);
    let mut out = vec![];
    for f in files {
        let name = f.to_string_lossy().to_string();
        let ext = f.extension().and_then(|e| e.to_str()).unwrap_or("");
        match ext {
            "wat" => {
                if let Ok(s) = std::fs::read_to_string(&f) {
                    if s.trim().is_empty() {
                        continue;
                    }
                    if let Ok(Ok(b)) = guarded(|| wat::parse_str(&s)) {
                        let comp = wasmparser::Parser::is_component(&b);
                        out.push((name, b, comp));
                    }
                }
            }
            "wasm" => {
                if let Ok(b) = std::fs::read(&f) {
                    if b.is_empty() {
                        continue;
                    }
                    let comp = wasmparser::Parser::is_component(&b);
                    out.push((name, b, comp));
                }
            }
            "wast" => {
                if let Ok(s) = std::fs::read_to_string(&f) {
                    let r = guarded(|| {
                        let mut v = vec![];
                        let buf = match wast::parser::ParseBuffer::new(&s) {
                            Ok(b) => b,
                            Err(_) => return v,
                        };
                        let w = match wast::parser::parse::<wast::Wast>(&buf) {
                            Ok(w) => w,
                            Err(_) => return v,
                        };
                        for (k, d) in w.directives.into_iter().enumerate() {
                            use wast::WastDirective::*;
                            let q = match d {
                                Module(q) | ModuleDefinition(q) => Some(q),
                                AssertMalformed { module, .. } | AssertInvalid { module, .. } => Some(module),
                                _ => None,
                            };
                            if let Some(mut q) = q {
                                if let Ok(b) = q.encode() {
                                    v.push((k, b));
                                }
                            }
                        }
                        v
                    });
                    if let Ok(v) = r {
                        for (k, b) in v {
                            let comp = wasmparser::Parser::is_component(&b);
                            out.push((format!("{}#{}", name, k), b, comp));
                        }
                    }
                }
            }
            _ => {}
        }
    }
    out
}

pub fn main(args: &[String]) {
    let mut cases_path = String::new();
    let mut out_path = String::new();
    let mut i = 0;
    while i < args.len() {
        match args[i].as_str() {
            "--cases" => cases_path = args[i + 1].clone(),
            "--out" => out_path = args[i + 1].clone(),
            _ => panic!("unknown arg {}", args[i]),
        }
        i += 2;
    }
    let cases = read_lines(&cases_path);
    let mut out = Out::create(&out_path);
    let mut next_id = 0u64;
    for case in cases.iter() {
        let kind = case["kind"].as_str().unwrap_or("wat");
        let id = case["id"].as_u64().unwrap_or(0);
        next_id = next_id.max(id);
        if kind == "corpus" {
            continue;
        }
        let mut ev = json!({"t":"rt","id":id,"kind":kind});
        if kind == "shape" {
            let feat: Vec<String> = case["feat"].as_array().map(|a| a.iter().map(|x| x.as_str().unwrap().to_string()).collect()).unwrap_or_default();
            ev["feat"] = json!(feat);
            ev["label"] = json!(feat.join("+"));
            match guarded(|| shape_module(&feat)) {
                Ok(b) => {
                    let b = leak(b);
                    if let Err(e) = validate(b) {
                        ev["skip"] = json!(format!("input does not validate: {}", e));
                    } else {
                        roundtrip(b, false, &mut ev);
                    }
                }
                Err(m) => ev["skip"] = json!(m),
            }
            defaults(&mut ev);
            out.ev(ev);
            continue;
        }
        let wat_text = if kind == "vt" {
            ev["vt"] = case["vt"].clone();
            ev["pos"] = case["pos"].clone();
            vt_module(&case["vt"], case["pos"].as_str().unwrap())
        } else {
            case["wat"].as_str().unwrap_or("(module)").to_string()
        };
        ev["label"] = json!(short(&wat_text));
        match guarded(|| wat::parse_str(&wat_text)) {
            Ok(Ok(b)) => {
                let b = leak(b);
                if validate(b).is_err() {
                    ev["skip"] = json!("input does not validate");
                } else {
                    roundtrip(b, wasmparser::Parser::is_component(b), &mut ev);
                }
            }
            other => {
                ev["skip"] = json!(short(&format!("wat: {:?}", other.map(|r| r.map(|_| ())))));
            }
        }
        defaults(&mut ev);
        out.ev(ev);
    }
    if cases.iter().any(|c| c["kind"] == "corpus") {
        for (label, bytes, comp) in corpus() {
            next_id += 1;
            let b = leak(bytes);
            let mut ev = json!({"t":"rt","id":next_id,"kind":if comp {"corpus_comp"} else {"corpus"},"label":label});
            roundtrip(b, comp, &mut ev);
            defaults(&mut ev);
            out.ev(ev);
        }
    }
    out.flush();
    println!("{{\"cases\":{}}}", out.n);
}
