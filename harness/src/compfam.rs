//! Component nesting family (C27): nested component trees are built with wasm-encoder, round-tripped
//! through Component::parse / Component::encode, and both input and output are projected back to
//! item trees (core modules, nested components, type definitions, custom sections).
//!
//! Case: {"id":N,"tree":[item..]}   item = {"k":"M"|"T"|"X","id":n} | {"k":"C","kids":[item..]}
use crate::common::*;
use serde_json::{json, Value as J};
use wirm::Component;

fn core_module(id: u64) -> wasm_encoder::Module {
    use wasm_encoder::*;
    let mut m = Module::new();
    let mut t = TypeSection::new();
    t.ty().function(vec![], vec![]);
    m.section(&t);
    let mut f = FunctionSection::new();
    f.function(0);
    m.section(&f);
    let mut e = ExportSection::new();
    e.export(&format!("m{}", id), ExportKind::Func, 0);
    m.section(&e);
    let mut c = CodeSection::new();
    let mut body = Function::new(vec![]);
    body.instruction(&Instruction::I32Const(id as i32));
    body.instruction(&Instruction::Drop);
    body.instruction(&Instruction::End);
    c.function(&body);
    m.section(&c);
    m
}

fn build(items: &[J]) -> wasm_encoder::Component {
    use wasm_encoder::*;
    let mut c = Component::new();
    for it in items {
        match it["k"].as_str().unwrap() {
            "M" => {
                c.section(&ModuleSection(&core_module(it["id"].as_u64().unwrap())));
            }
            "T" => {
                let mut ts = ComponentTypeSection::new();
                let name = format!("f{}", it["id"].as_u64().unwrap());
                ts.defined_type().record([(name.as_str(), ComponentValType::Primitive(PrimitiveValType::U32))]);
                c.section(&ts);
            }
            "X" => {
                let name = format!("x{}", it["id"].as_u64().unwrap());
                c.section(&CustomSection { name: name.as_str().into(), data: (&[1u8, 2, 3][..]).into() });
            }
            "C" => {
                let kids: Vec<J> = it["kids"].as_array().cloned().unwrap_or_default();
                c.section(&NestedComponentSection(&build(&kids)));
            }
            k => panic!("item kind {}", k),
        }
    }
    c
}

/// project component bytes to an item tree
pub fn project(bytes: &[u8]) -> Result<J, String> {
    // stack of (items, is_module)
    let mut stack: Vec<(Vec<J>, bool, Option<u64>)> = vec![];
    let mut root: Option<Vec<J>> = None;
    for p in wasmparser::Parser::new(0).parse_all(bytes) {
        let p = p.map_err(|e| e.to_string())?;
        use wasmparser::Payload::*;
        match p {
            Version { encoding, .. } => {
                let is_mod = matches!(encoding, wasmparser::Encoding::Module);
                stack.push((vec![], is_mod, None));
            }
            End(_) => {
                let (items, is_mod, mid) = stack.pop().ok_or("unbalanced end")?;
                if let Some((parent, _, _)) = stack.last_mut() {
                    if is_mod {
                        parent.push(json!({"k":"M","id":mid.map(|x| x as i64).unwrap_or(-1)}));
                    } else {
                        parent.push(json!({"k":"C","kids":items}));
                    }
                } else {
                    root = Some(items);
                }
            }
            ExportSection(r) => {
                if let Some((_, true, mid)) = stack.last_mut() {
                    for e in r.into_iter().flatten() {
                        if let Some(n) = e.name.strip_prefix('m').and_then(|x| x.parse::<u64>().ok()) {
                            *mid = Some(n);
                        }
                    }
                }
            }
            ComponentTypeSection(r) => {
                for t in r {
                    let t = t.map_err(|e| e.to_string())?;
                    let mut id: i64 = -1;
                    if let wasmparser::ComponentType::Defined(wasmparser::ComponentDefinedType::Record(fields)) = &t {
                        if let Some((n, _)) = fields.first() {
                            id = n.strip_prefix('f').and_then(|x| x.parse::<i64>().ok()).unwrap_or(-1);
                        }
                    }
                    if let Some((items, false, _)) = stack.last_mut() {
                        items.push(json!({"k":"T","id":id}));
                    }
                }
            }
            CustomSection(c) => {
                if let Some((items, false, _)) = stack.last_mut() {
                    let id = c.name().strip_prefix('x').and_then(|x| x.parse::<i64>().ok()).unwrap_or(-1);
                    if c.name() != "component-name" {
                        items.push(json!({"k":"X","id":id,"ok":c.data() == [1u8, 2, 3]}));
                    }
                }
            }
            _ => {}
        }
    }
    root.map(J::Array).ok_or_else(|| "no root".to_string())
}

pub fn main(args: &[String]) {
    let mut cases_path = String::new();
    let mut out_path = String::new();
    let mut i = 0;
    while i < args.len() {
        match args[i].as_str() {
            "--cases" => cases_path = args[i + 1].clone(),
            "--out" => out_path = args[i + 1].clone(),
            _ => panic!("unknown arg {}", args[i]),
        }
        i += 2;
    }
    let cases = read_lines(&cases_path);
    let mut out = Out::create(&out_path);
    let mut skipped = 0;
    for case in cases.iter() {
        let items: Vec<J> = case["tree"].as_array().cloned().unwrap_or_default();
        let bytes = leak(build(&items).finish());
        let mut ev = json!({"t":"comp","id":case["id"]});
        if let Err(e) = validate(bytes) {
            ev["skip"] = json!(e);
            skipped += 1;
            out.ev(ev);
            continue;
        }
        ev["tree"] = project(bytes).unwrap_or_else(|e| json!([{"k":"ERR","msg":e}]));
        match guarded(|| Component::parse(bytes, false)) {
            Ok(Ok(mut comp)) => {
                ev["parse"] = json!("ok");
                match guarded(|| comp.encode()) {
                    Ok(o) => {
                        ev["encode_panic"] = json!(false);
                        let v = validate(&o);
                        ev["valid"] = json!(v.is_ok());
                        ev["err"] = json!(v.err().unwrap_or_default());
                        ev["out"] = project(&o).unwrap_or_else(|e| json!([{"k":"ERR","msg":e}]));
                        ev["same2"] = json!(match guarded(|| comp.encode()) {
                            Ok(o2) => o2 == o,
                            Err(_) => false,
                        });
                    }
                    Err(m) => {
                        ev["encode_panic"] = json!(true);
                        ev["msg"] = json!(m);
                        ev["valid"] = json!(false);
                        ev["err"] = json!("");
                        ev["out"] = json!([]);
                        ev["same2"] = json!(true);
                    }
                }
            }
            Ok(Err(e)) => {
                ev["parse"] = json!("err");
                ev["msg"] = json!(short(&format!("{:?}", e)));
            }
            Err(m) => {
                ev["parse"] = json!("panic");
                ev["msg"] = json!(m);
            }
        }
        out.ev(ev);
    }
    out.flush();
    println!("{{\"cases\":{},\"skipped\":{}}}", out.n, skipped);
}
