//! Shared helpers: panic capture, ndjson output, validation.
use serde_json::Value as J;
use std::io::Write;
use std::panic::{catch_unwind, AssertUnwindSafe};
use std::sync::Mutex;

pub static LAST_PANIC: Mutex<String> = Mutex::new(String::new());

/// Install a quiet panic hook that remembers the last panic message.
pub fn install_panic_hook() {
    std::panic::set_hook(Box::new(|info| {
        let msg = if let Some(s) = info.payload().downcast_ref::<&str>() {
            s.to_string()
        } else if let Some(s) = info.payload().downcast_ref::<String>() {
            s.clone()
        } else {
            "<non-string panic>".to_string()
        };
        let loc = info
            .location()
            .map(|l| format!("{}:{}", l.file(), l.line()))
            .unwrap_or_default();
        if let Ok(mut g) = LAST_PANIC.lock() {
            *g = format!("{}: {}", loc.replace("/repo/", ""), msg);
        }
    }));
}

/// Run `f`, turning a panic into Err(message).  A panic in the code under test is data.
pub fn guarded<T>(f: impl FnOnce() -> T) -> Result<T, String> {
    match catch_unwind(AssertUnwindSafe(f)) {
        Ok(v) => Ok(v),
        Err(_) => {
            let m = LAST_PANIC.lock().map(|g| g.clone()).unwrap_or_default();
            Err(short(&m))
        }
    }
}

pub fn short(s: &str) -> String {
    let s: String = s
        .chars()
        .map(|c| if c == '\n' || c == '"' || c == '\\' { ' ' } else { c })
        .collect();
    if s.len() > 160 {
        let mut e = 160;
        while !s.is_char_boundary(e) {
            e -= 1;
        }
        s[..e].to_string()
    } else {
        s
    }
}

pub struct Out {
    w: std::io::BufWriter<std::fs::File>,
    pub n: usize,
}
impl Out {
    pub fn create(path: &str) -> Out {
        Out {
            w: std::io::BufWriter::new(std::fs::File::create(path).expect("create out")),
            n: 0,
        }
    }
    pub fn ev(&mut self, v: J) {
        writeln!(self.w, "{}", v).unwrap();
        self.n += 1;
    }
    pub fn flush(&mut self) {
        self.w.flush().unwrap();
    }
}

pub fn validate(bytes: &[u8]) -> Result<(), String> {
    let mut v = wasmparser::Validator::new_with_features(wasmparser::WasmFeatures::all());
    match v.validate_all(bytes) {
        Ok(_) => Ok(()),
        Err(e) => Err(short(&format!("{}", e))),
    }
}

pub fn leak(b: Vec<u8>) -> &'static [u8] {
    Box::leak(b.into_boxed_slice())
}

pub fn read_lines(path: &str) -> Vec<J> {
    let s = std::fs::read_to_string(path).unwrap_or_else(|e| panic!("read {}: {}", path, e));
    s.lines()
        .filter(|l| !l.trim().is_empty())
        .map(|l| serde_json::from_str(l).unwrap_or_else(|e| panic!("bad json line {}: {}", l, e)))
        .collect()
}
