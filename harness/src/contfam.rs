//! Content family (C12, C13, C14, C28, C30): programs of additions on a base module; every request
//! is also encoded on its own with wasm-encoder ("reference") and decoded with the same decoder, so
//! that spec/ContentTrace.tla can compare list positions / returned indices and opaque contents.
//!
//! Case: {"id":N,"base":{"types":"plain"|"rec","locals":"none"|"a"|"aa"|"ab","customs":K},"prog":[op..]}
use crate::common::*;
use serde_json::{json, Value as J};
use wirm::ir::function::{FunctionBuilder, FunctionModifier};
use wirm::ir::id::{CustomSectionID, FunctionID, GlobalID, ImportsID, TypeID};
use wirm::ir::types::{CustomSection, DataSegment, DataSegmentKind, InitExpr, Value};
use wirm::iterator::iterator_trait::Iterator as WIterator;
use wirm::iterator::module_iterator::ModuleIterator;
use wirm::module_builder::AddLocal;
use wirm::opcode::Opcode;
use wirm::{DataType, InitInstr, Location, Module};

fn dt(s: &str) -> DataType {
    match s {
        "i32" => DataType::I32,
        "i64" => DataType::I64,
        "f32" => DataType::F32,
        "f64" => DataType::F64,
        "v128" => DataType::V128,
        "funcref" => DataType::FuncRefNull,
        "externref" => DataType::ExternRefNull,
        // abstract heap types, nullable ("xnull") and not ("x")
        "anynull" => DataType::AnyNull,
        "any" => DataType::Any,
        "eqnull" => DataType::EqNull,
        "eq" => DataType::Eq,
        "structnull" => DataType::StructNull,
        "struct" => DataType::Struct,
        "arraynull" => DataType::ArrayNull,
        "array" => DataType::Array,
        "i31null" => DataType::I31Null,
        "i31" => DataType::I31,
        "nonenull" => DataType::NoneNull,
        "nofuncnull" => DataType::NoFuncNull,
        "noexternnull" => DataType::NoExternNull,
        "func" => DataType::FuncRef,
        "extern" => DataType::ExternRef,
        "i8" => DataType::I8,
        "i16" => DataType::I16,
        x => panic!("dt {}", x),
    }
}
fn vt(s: &str) -> wasm_encoder::ValType {
    use wasm_encoder::ValType::*;
    match s {
        "i32" => I32,
        "i64" => I64,
        "f32" => F32,
        "f64" => F64,
        "v128" => V128,
        "funcref" => wasm_encoder::ValType::FUNCREF,
        "externref" => wasm_encoder::ValType::EXTERNREF,
        x => {
            use wasm_encoder::{AbstractHeapType as A, HeapType, RefType};
            let (name, nullable) = match x.strip_suffix("null") {
                Some(n) => (n, true),
                None => (x, false),
            };
            let ty = match name {
                "any" => A::Any,
                "eq" => A::Eq,
                "struct" => A::Struct,
                "array" => A::Array,
                "i31" => A::I31,
                "none" => A::None,
                "nofunc" => A::NoFunc,
                "noextern" => A::NoExtern,
                "func" => A::Func,
                "extern" => A::Extern,
                _ => panic!("vt {}", x),
            };
            wasm_encoder::ValType::Ref(RefType { nullable, heap_type: HeapType::Abstract { shared: false, ty } })
        }
    }
}
fn st(s: &str) -> wasm_encoder::StorageType {
    match s {
        "i8" => wasm_encoder::StorageType::I8,
        "i16" => wasm_encoder::StorageType::I16,
        x => wasm_encoder::StorageType::Val(vt(x)),
    }
}
fn strs(j: &J) -> Vec<String> {
    j.as_array().map(|a| a.iter().map(|x| x.as_str().unwrap().to_string()).collect()).unwrap_or_default()
}
fn unhex(s: &str) -> Vec<u8> {
    (0..s.len() / 2).map(|i| u8::from_str_radix(&s[2 * i..2 * i + 2], 16).unwrap()).collect()
}
fn hex(b: &[u8]) -> String {
    b.iter().map(|x| format!("{:02x}", x)).collect()
}

/// code section from raw bodies; body 1 ($f2) gets its `(2 x i32)` local group split into `(1 x i32)(1 x i32)`
fn emit_code(out: &mut Vec<u8>, bodies: &[Vec<u8>]) {
    let leb = |mut v: u32, o: &mut Vec<u8>| loop {
        let b = (v & 0x7f) as u8;
        v >>= 7;
        if v == 0 {
            o.push(b);
            break;
        }
        o.push(b | 0x80);
    };
    let mut sec = vec![];
    leb(bodies.len() as u32, &mut sec);
    for (k, b) in bodies.iter().enumerate() {
        let mut body = b.clone();
        if k == 1 && body.len() >= 3 && body[0] == 0x01 && body[1] == 0x02 && body[2] == 0x7f {
            let mut nb = vec![0x02, 0x01, 0x7f, 0x01, 0x7f];
            nb.extend_from_slice(&body[3..]);
            body = nb;
        }
        leb(body.len() as u32, &mut sec);
        sec.extend_from_slice(&body);
    }
    out.push(10);
    leb(sec.len() as u32, out);
    out.extend_from_slice(&sec);
}

pub fn base_module(base: &J) -> Vec<u8> {
    let mut w = String::from("(module\n");
    match base["types"].as_str().unwrap_or("plain") {
        "rec" => {
            w += "  (type $t0 (func))\n  (rec (type $a (struct (field i32))) (type $b (array (mut i64))))\n  (type (func (param i32)))\n  (type (func))\n  (type (array (mut i64)))\n  (type $open (sub (struct)))\n";
        }
        _ => w += "  (type $t0 (func))\n  (type (func (param i32)))\n  (type $open (sub (struct)))\n",
    }
    w += "  (import \"env\" \"imp\" (func $imp (type $t0)))\n";
    if base["imp2"] == true {
        // a second imported function whose numbers of parameters and results differ (replaced before the program runs)
        w += "  (import \"env\" \"imp2\" (func $imp2 (param i32 i32) (result i32)))\n";
    }
    w += "  (func $f1 (param i32) (local i64 i64) i32.const 111 drop)\n";
    let locals = match base["locals"].as_str().unwrap_or("none") {
        "a" => "(local i32)",
        "aa" | "aa_split" => "(local i32 i32)",
        "ab" => "(local i32) (local f64)",
        _ => "",
    };
    w += &format!("  (func $f2 {} i32.const 222 drop call $imp)\n", locals);
    w += "  (memory 1)\n  (global $g0 (mut i32) (i32.const 5))\n  (export \"f1\" (func $f1)) (export \"g0\" (global $g0)) (export \"mem0\" (memory 0))\n  (data (i32.const 0) \"base\")\n)\n";
    let mut plain = wat::parse_str(&w).expect("content base");
    if base["locals"] == "aa_split" {
        // the same two i32 locals of $f2, declared as TWO groups of one (valid; text tools always merge such runs)
        let mut out = plain[..8].to_vec();
        let mut bodies: Vec<Vec<u8>> = vec![];
        let mut code_emitted = false;
        use wasm_encoder::Section;
        for p in wasmparser::Parser::new(0).parse_all(&plain) {
            let p = p.expect("content base parses");
            if let wasmparser::Payload::CodeSectionEntry(b) = &p {
                bodies.push(plain[b.range()].to_vec());
                continue;
            }
            if let wasmparser::Payload::CodeSectionStart { .. } = &p {
                continue;
            }
            if let Some((id, range)) = p.as_section() {
                if id > 10 && !bodies.is_empty() && !code_emitted {
                    emit_code(&mut out, &bodies);
                    code_emitted = true;
                }
                wasm_encoder::RawSection { id, data: &plain[range] }.append_to(&mut out);
            }
        }
        if !code_emitted {
            emit_code(&mut out, &bodies);
        }
        plain = out;
    }
    let ncust = base["customs"].as_u64().unwrap_or(0);
    let cpos = base["cpos"].as_str().unwrap_or("end");
    // re-assemble the binary section by section so that the custom sections can sit anywhere:
    // "end" (after everything), "front" (before the type section), "spread" (one after each of the first sections)
    use wasm_encoder::Section;
    let mut bytes = plain[..8].to_vec();
    let custom = |k: u64, out: &mut Vec<u8>| {
        // names the decoder library classifies as "known" kinds (dylink.0, branch hints) next to arbitrary ones
        let name = ["c0", "dylink.0", "c0", "metadata.code.branch_hint"][(k % 4) as usize];
        wasm_encoder::CustomSection { name: name.into(), data: (&[k as u8, 7][..]).into() }.append_to(out);
    };
    let mut placed = 0u64;
    if cpos == "front" {
        while placed < ncust {
            custom(placed, &mut bytes);
            placed += 1;
        }
    }
    for p in wasmparser::Parser::new(0).parse_all(&plain) {
        let p = p.expect("content base parses");
        if let Some((id, range)) = p.as_section() {
            wasm_encoder::RawSection { id, data: &plain[range] }.append_to(&mut bytes);
            if cpos == "spread" && placed < ncust {
                custom(placed, &mut bytes);
                placed += 1;
            }
        }
    }
    while placed < ncust {
        custom(placed, &mut bytes);
        placed += 1;
    }
    bytes
}

// ---- decoding to canonical strings -------------------------------------------------------------
/// constant-expression operators as text with every index replaced by `@`; the indices are returned
/// separately as (index space, index) so that the trace spec can compare them through the handle map
fn const_ops(e: &wasmparser::ConstExpr, refs: &mut Vec<J>) -> String {
    let mut v = vec![];
    for o in e.get_operators_reader().into_iter().flatten() {
        match o {
            wasmparser::Operator::RefFunc { function_index } => {
                refs.push(json!({"sp":"f","idx":function_index}));
                v.push("RefFunc@".to_string());
            }
            wasmparser::Operator::GlobalGet { global_index } => {
                refs.push(json!({"sp":"g","idx":global_index}));
                v.push("GlobalGet@".to_string());
            }
            o => v.push(format!("{:?}", o)),
        }
    }
    v.join(";")
}

pub fn decode(bytes: &[u8]) -> Result<J, String> {
    let mut types: Vec<String> = vec![];
    let mut ftypes: Vec<(Vec<String>, Vec<String>)> = vec![];
    let mut nimp = 0usize;
    let mut func_ty: Vec<u32> = vec![];
    let mut globals = vec![];
    let mut mems = vec![];
    let mut imports = vec![];
    let mut impmems: Vec<String> = vec![];
    let mut impglobals: Vec<String> = vec![];
    let mut data = vec![];
    let mut exports = vec![];
    let mut customs = vec![];
    let mut bodies: Vec<J> = vec![];
    let mut fnames: std::collections::HashMap<u32, String> = Default::default();
    for p in wasmparser::Parser::new(0).parse_all(bytes) {
        use wasmparser::Payload::*;
        match p.map_err(|e| e.to_string())? {
            TypeSection(r) => {
                for g in r {
                    let g = g.map_err(|e| e.to_string())?;
                    let explicit = g.is_explicit_rec_group();
                    for s in g.types() {
                        types.push(format!("{}{:?}", if explicit { "rec:" } else { "" }, s));
                        if let wasmparser::CompositeInnerType::Func(f) = &s.composite_type.inner {
                            ftypes.push((f.params().iter().map(|x| format!("{:?}", x)).collect(), f.results().iter().map(|x| format!("{:?}", x)).collect()));
                        } else {
                            ftypes.push((vec!["<nonfunc>".into()], vec![]));
                        }
                    }
                }
            }
            ImportSection(r) => {
                for i in r {
                    let i = i.map_err(|e| e.to_string())?;
                    match i.ty {
                        wasmparser::TypeRef::Func(_) => nimp += 1,
                        wasmparser::TypeRef::Memory(m) => impmems.push(format!("{:?}", m)),
                        wasmparser::TypeRef::Global(g) => impglobals.push(format!("{:?}", g)),
                        _ => {}
                    }
                    imports.push(format!("{}.{} {:?}", i.module, i.name, i.ty));
                }
            }
            FunctionSection(r) => {
                for f in r {
                    func_ty.push(f.map_err(|e| e.to_string())?);
                }
            }
            GlobalSection(r) => {
                for g in r {
                    let g = g.map_err(|e| e.to_string())?;
                    let mut refs = vec![];
                    let ops = const_ops(&g.init_expr, &mut refs);
                    globals.push(json!({"s":format!("{:?} init={}", g.ty, ops),"refs":refs}));
                }
            }
            MemorySection(r) => {
                for m in r {
                    mems.push(format!("{:?}", m.map_err(|e| e.to_string())?));
                }
            }
            ExportSection(r) => {
                for e in r {
                    let e = e.map_err(|e| e.to_string())?;
                    exports.push(json!({"name":e.name,"kind":format!("{:?}", e.kind),"index":e.index}));
                }
            }
            DataSection(r) => {
                for d in r {
                    let d = d.map_err(|e| e.to_string())?;
                    let mut refs = vec![];
                    let k = match &d.kind {
                        wasmparser::DataKind::Passive => "passive".to_string(),
                        wasmparser::DataKind::Active { memory_index, offset_expr } => {
                            refs.push(json!({"sp":"m","idx":memory_index}));
                            let ops = const_ops(offset_expr, &mut refs);
                            format!("active mem=@ off={}", ops)
                        }
                    };
                    data.push(json!({"s":format!("{} bytes={}", k, hex(d.data)),"refs":refs}));
                }
            }
            CodeSectionEntry(b) => {
                let mut locals = vec![];
                for l in b.get_locals_reader().map_err(|e| e.to_string())? {
                    let (n, t) = l.map_err(|e| e.to_string())?;
                    for _ in 0..n {
                        locals.push(format!("{:?}", t));
                    }
                }
                let ops: Vec<String> = b.get_operators_reader().map_err(|e| e.to_string())?.into_iter().flatten().map(|o| format!("{:?}", o)).collect();
                bodies.push(json!({"locals":locals,"body":ops}));
            }
            CustomSection(c) => {
                if let wasmparser::KnownCustom::Name(nr) = c.as_known() {
                    for sub in nr.into_iter().flatten() {
                        if let wasmparser::Name::Function(nm) = sub {
                            for n in nm.into_iter().flatten() {
                                fnames.insert(n.index, n.name.to_string());
                            }
                        }
                    }
                } else {
                    customs.push(json!({"name":c.name(),"bytes":hex(c.data())}));
                }
            }
            _ => {}
        }
    }
    let mut funcs = vec![];
    for (i, b) in bodies.iter().enumerate() {
        let (ps, rs) = ftypes.get(*func_ty.get(i).unwrap_or(&9999) as usize).cloned().unwrap_or((vec!["?".into()], vec![]));
        funcs.push(json!({"params":ps,"results":rs,"locals":b["locals"],"body":b["body"],
            "name":fnames.get(&((nimp + i) as u32)).cloned().unwrap_or_default(),"index":nimp + i}));
    }
    Ok(json!({"types":types,"funcs":funcs,"globals":globals,"mems":mems,"data":data,"exports":exports,"customs":customs,"imports":imports,"nimp":nimp,"impmems":impmems,"impglobals":impglobals}))
}

// ---- reference encodings of requests --------------------------------------------------------------
fn ref_type(op: &J) -> String {
    use wasm_encoder::*;
    let mut ts = TypeSection::new();
    let sup = op["super"].as_u64().map(|x| x as u32);
    let is_final = op["final"].as_bool().unwrap_or(true);
    let shared = op["shared"].as_bool().unwrap_or(false);
    let inner = match op["kind"].as_str().unwrap() {
        "func" => CompositeInnerType::Func(FuncType::new(strs(&op["params"]).iter().map(|x| vt(x)), strs(&op["results"]).iter().map(|x| vt(x)))),
        "array" => CompositeInnerType::Array(ArrayType(FieldType { element_type: st(op["elem"].as_str().unwrap()), mutable: op["mut"].as_bool().unwrap_or(false) })),
        _ => CompositeInnerType::Struct(StructType {
            fields: op["fields"].as_array().unwrap().iter().map(|f| FieldType { element_type: st(f[0].as_str().unwrap()), mutable: f[1].as_bool().unwrap() }).collect(),
        }),
    };
    ts.ty().subtype(&SubType { is_final, supertype_idx: sup, composite_type: CompositeType { inner, shared } });
    let mut m = Module::new();
    m.section(&ts);
    decode(&m.finish()).map(|d| d["types"][0].as_str().unwrap().to_string()).unwrap_or_else(|e| e)
}

fn const_expr(init: &J) -> wasm_encoder::ConstExpr {
    use wasm_encoder::ConstExpr as C;
    match init["k"].as_str().unwrap() {
        "i32" => C::i32_const(init["v"].as_str().unwrap().parse().unwrap()),
        "i64" => C::i64_const(init["v"].as_str().unwrap().parse().unwrap()),
        // raw bytes: the reference must not go through any float conversion
        "f32" => {
            let bits: u32 = init["v"].as_str().unwrap().parse().unwrap();
            let mut b = vec![0x43];
            b.extend_from_slice(&bits.to_le_bytes());
            C::raw(b)
        }
        "f64" => {
            let bits: u64 = init["v"].as_str().unwrap().parse().unwrap();
            let mut b = vec![0x44];
            b.extend_from_slice(&bits.to_le_bytes());
            C::raw(b)
        }
        "v128" => C::v128_const(init["v"].as_str().unwrap().parse::<u128>().unwrap() as i128),
        "global" => C::global_get(init["id"].as_u64().unwrap() as u32),
        "ref_func" => C::ref_func(init["id"].as_u64().unwrap() as u32),
        _ => C::ref_null(wasm_encoder::HeapType::FUNC),
    }
}
fn init_expr(init: &J) -> InitExpr {
    InitExpr::new(vec![match init["k"].as_str().unwrap() {
        "i32" => InitInstr::Value(Value::I32(init["v"].as_str().unwrap().parse().unwrap())),
        "i64" => InitInstr::Value(Value::I64(init["v"].as_str().unwrap().parse().unwrap())),
        "f32" => InitInstr::Value(Value::F32(f32::from_bits(init["v"].as_str().unwrap().parse().unwrap()))),
        "f64" => InitInstr::Value(Value::F64(f64::from_bits(init["v"].as_str().unwrap().parse().unwrap()))),
        "v128" => InitInstr::Value(Value::V128(init["v"].as_str().unwrap().parse().unwrap())),
        "global" => InitInstr::Global(GlobalID(init["id"].as_u64().unwrap() as u32)),
        "ref_func" => InitInstr::RefFunc(FunctionID(init["id"].as_u64().unwrap() as u32)),
        _ => InitInstr::RefNull(wasmparser::RefType::FUNCREF),
    }])
}
fn ref_global(op: &J) -> J {
    use wasm_encoder::*;
    let mut gs = GlobalSection::new();
    gs.global(GlobalType { val_type: vt(op["ty"].as_str().unwrap()), mutable: op["mut"].as_bool().unwrap_or(false), shared: op["shared"].as_bool().unwrap_or(false) }, &const_expr(&op["init"]));
    let mut m = Module::new();
    m.section(&gs);
    decode(&m.finish()).map(|d| d["globals"][0].clone()).unwrap_or_else(|e| json!({"s":e,"refs":[]}))
}
fn mem_ty(op: &J) -> wasmparser::MemoryType {
    wasmparser::MemoryType {
        memory64: op["m64"].as_bool().unwrap_or(false),
        shared: op["shared"].as_bool().unwrap_or(false),
        initial: op["initial"].as_u64().unwrap_or(1),
        maximum: op["max"].as_u64(),
        page_size_log2: None,
    }
}
fn ref_memory(op: &J) -> String {
    use wasm_encoder::*;
    let t = mem_ty(op);
    let mut ms = MemorySection::new();
    ms.memory(MemoryType { minimum: t.initial, maximum: t.maximum, memory64: t.memory64, shared: t.shared, page_size_log2: None });
    let mut m = Module::new();
    m.section(&ms);
    decode(&m.finish()).map(|d| d["mems"][0].as_str().unwrap().to_string()).unwrap_or_else(|e| e)
}
fn ref_data(op: &J) -> J {
    use wasm_encoder::*;
    let mut ds = DataSection::new();
    let bytes = unhex(op["bytes"].as_str().unwrap());
    if op["kind"] == "passive" {
        ds.passive(bytes);
    } else {
        ds.active(op["mem"].as_u64().unwrap_or(0) as u32, &const_expr(&op["off"]), bytes);
    }
    let mut m = Module::new();
    m.section(&ds);
    decode(&m.finish()).map(|d| d["data"][0].clone()).unwrap_or_else(|e| json!({"s":e,"refs":[]}))
}

/// apply the named body op through the opcode helpers
fn body_op<'a, T: Opcode<'a>>(t: &mut T, name: &str) {
    match name {
        "nop" => {
            t.nop();
        }
        "drop" => {
            t.drop();
        }
        "i32_const_7" => {
            t.i32_const(7);
        }
        "i64_const_m1" => {
            t.i64_const(-1);
        }
        "local_get_0" => {
            t.local_get(wirm::ir::id::LocalID(0));
        }
        "local_set_0" => {
            t.local_set(wirm::ir::id::LocalID(0));
        }
        "call_0" => {
            t.call(FunctionID(0));
        }
        "unreachable" => {
            t.unreachable();
        }
        "block" => {
            t.block(wirm::ir::types::BlockType::Empty);
        }
        "loop" => {
            t.loop_stmt(wirm::ir::types::BlockType::Empty);
        }
        "if" => {
            t.if_stmt(wirm::ir::types::BlockType::Empty);
        }
        "else" => {
            t.else_stmt();
        }
        "end" => {
            t.end();
        }
        x => panic!("body op {}", x),
    }
}

/// locals campaign on a module wrapped in a component: FunctionModifier on comp.modules[0] and
/// ComponentIterator::add_local
fn run_case_comp(case: &J) -> J {
    use wirm::iterator::component_iterator::ComponentIterator;
    use wirm::Component;
    let mbytes = base_module(&case["base"]);
    let mut ev = json!({"t":"content","id":case["id"],"base":case["base"]});
    ev["obs0"] = decode(&mbytes).unwrap_or_else(|e| json!({"error":e}));
    let mut c = wasm_encoder::Component::new();
    c.section(&wasm_encoder::RawSection { id: wasm_encoder::ComponentSectionId::CoreModule as u8, data: &mbytes });
    let cbytes = leak(c.finish());
    let mut comp = match guarded(|| Component::parse(cbytes, false)) {
        Ok(Ok(c)) => c,
        other => {
            ev["skip"] = json!(format!("base component parse: {:?}", other.err()));
            return ev;
        }
    };
    let nimp = 1u32;
    let mut trace = vec![];
    for op in case["prog"].as_array().cloned().unwrap_or_default() {
        let mut rec = op.clone();
        if op["op"] == "build" {
            rec["req"] = json!(ref_type(&json!({"kind":"func","params":op["params"],"results":op["results"]})));
        }
        let r: Result<J, String> = guarded(|| {
            if op["op"] == "build" {
                // FunctionBuilder::finish_component on module 0 of the component
                let params: Vec<DataType> = strs(&op["params"]).iter().map(|x| dt(x)).collect();
                let results: Vec<DataType> = strs(&op["results"]).iter().map(|x| dt(x)).collect();
                let mut fb = FunctionBuilder::new(&params, &results);
                let mut lids = vec![];
                for l in strs(&op["locals"]) {
                    lids.push(*fb.add_local(dt(&l)));
                }
                for b in strs(&op["body"]) {
                    body_op(&mut fb, &b);
                }
                if let Some(n) = op["name"].as_str() {
                    if !n.is_empty() {
                        fb.set_name(n.to_string());
                    }
                }
                let id = *fb.finish_component(&mut comp, wirm::ir::id::ModuleID(0));
                let ename = format!("built{}", op["n"].as_u64().unwrap_or(0));
                comp.modules[0].exports.add_export_func(ename.clone(), id, None);
                return json!({"id":id,"lids":lids,"export":ename});
            }
            let f = op["f"].as_u64().unwrap() as u32;
            let fid = FunctionID(nimp + f - 1);
            let ty = dt(op["ty"].as_str().unwrap());
            let id = match op["via"].as_str().unwrap_or("modifier") {
                "modifier" => {
                    let mut fm: FunctionModifier = comp.modules[0].functions.get_fn_modifier(fid).unwrap();
                    *fm.add_local(ty)
                }
                _ => {
                    let mut it = ComponentIterator::new(&mut comp, std::collections::HashMap::new());
                    loop {
                        if let (Location::Component { func_idx, .. }, _) = it.curr_loc() {
                            if func_idx == fid {
                                break;
                            }
                        }
                        if it.next().is_none() {
                            panic!("harness: function not reached");
                        }
                    }
                    *it.add_local(ty)
                }
            };
            json!(id)
        });
        match r {
            Ok(v) => {
                rec["panic"] = json!(false);
                rec["ret"] = v;
            }
            Err(m) => {
                rec["panic"] = json!(true);
                rec["msg"] = json!(m);
                rec["ret"] = json!(-1);
            }
        }
        trace.push(rec);
    }
    ev["prog"] = json!(trace);
    match guarded(|| comp.modules[0].encode()) {
        Ok(o) => {
            ev["encode_panic"] = json!(false);
            let v = validate(&o);
            ev["valid"] = json!(v.is_ok());
            ev["err"] = json!(v.err().unwrap_or_default());
            ev["obs"] = decode(&o).unwrap_or_else(|e| json!({"error":e}));
            ev["same2"] = json!(match guarded(|| comp.modules[0].encode()) {
                Ok(o2) => o2 == o,
                Err(_) => false,
            });
        }
        Err(m) => {
            ev["encode_panic"] = json!(true);
            ev["msg"] = json!(m);
        }
    }
    ev
}

fn run_case(case: &J) -> J {
    if case["base"]["comp"] == true {
        return run_case_comp(case);
    }
    let bytes = leak(base_module(&case["base"]));
    let mut ev = json!({"t":"content","id":case["id"],"base":case["base"]});
    ev["obs0"] = decode(bytes).unwrap_or_else(|e| json!({"error":e}));
    let mut module = match guarded(|| Module::parse(bytes, false)) {
        Ok(Ok(m)) => m,
        other => {
            ev["skip"] = json!(format!("base parse: {:?}", other.err()));
            return ev;
        }
    };
    let imp2 = case["base"]["imp2"] == true;
    let nimp = if imp2 { 2u32 } else { 1u32 };
    if imp2 {
        // pre-step: import 1 (two parameters, one result) is replaced by a built function with one f64 local
        let r = guarded(|| {
            let mut fb = FunctionBuilder::new(&[DataType::I32, DataType::I32], &[DataType::I32]);
            fb.add_local(DataType::F64);
            fb.i32_const(7);
            fb.replace_import_in_module(&mut module, ImportsID(1));
        });
        if let Err(m) = r {
            ev["skip"] = json!(format!("harness: pre-step replace failed: {}", m));
            return ev;
        }
    }
    let mut trace = vec![];
    for op in case["prog"].as_array().cloned().unwrap_or_default() {
        let name = op["op"].as_str().unwrap().to_string();
        let mut rec = op.clone();
        let r: Result<J, String> = guarded(|| match name.as_str() {
            "add_local" => {
                let f = op["f"].as_u64().unwrap() as u32; // 1-based local function number; 0 = the function that replaced import 1
                let fid = if f == 0 { FunctionID(1) } else { FunctionID(nimp + f - 1) };
                let ty = dt(op["ty"].as_str().unwrap());
                let id = match op["via"].as_str().unwrap_or("modifier") {
                    "modifier" => {
                        let mut fm: FunctionModifier = module.functions.get_fn_modifier(fid).unwrap();
                        *fm.add_local(ty)
                    }
                    "modifier_many" => {
                        let mut fm: FunctionModifier = module.functions.get_fn_modifier(fid).unwrap();
                        // the bulk helper, with a run of two equal types followed by a different one
                        let before = fm.body.num_locals;
                        let other = if ty == DataType::I64 { DataType::F32 } else { DataType::I64 };
                        fm.add_locals(&[ty, ty, other]);
                        fm.args.len() as u32 + before
                    }
                    _ => {
                        let mut it = ModuleIterator::new(&mut module, &vec![]);
                        loop {
                            if let (Location::Module { func_idx, .. }, _) = it.curr_loc() {
                                if func_idx == fid {
                                    break;
                                }
                            }
                            if it.next().is_none() {
                                panic!("harness: function not reached");
                            }
                        }
                        *it.add_local(ty)
                    }
                };
                json!(id)
            }
            "build" => {
                let params: Vec<DataType> = strs(&op["params"]).iter().map(|x| dt(x)).collect();
                let results: Vec<DataType> = strs(&op["results"]).iter().map(|x| dt(x)).collect();
                let mut fb = FunctionBuilder::new(&params, &results);
                let mut lids = vec![];
                for l in strs(&op["locals"]) {
                    lids.push(*fb.add_local(dt(&l)));
                }
                for b in strs(&op["body"]) {
                    body_op(&mut fb, &b);
                }
                if let Some(n) = op["name"].as_str() {
                    if !n.is_empty() {
                        fb.set_name(n.to_string());
                    }
                }
                let id = if op["via"] == "replace" {
                    fb.replace_import_in_module(&mut module, ImportsID(0));
                    0
                } else {
                    *fb.finish_module(&mut module)
                };
                // observe which function the returned ID designates: export it under a unique name
                let ename = format!("built{}", op["n"].as_u64().unwrap_or(0));
                module.exports.add_export_func(ename.clone(), id, None);
                json!({"id":id,"lids":lids,"export":ename})
            }
            "conv" => {
                // local function f (1-based) becomes an import of type 0 (func)
                let f = op["f"].as_u64().unwrap() as u32;
                json!(module.convert_local_fn_to_import(FunctionID(nimp + f - 1), "env".to_string(), "conv".to_string(), TypeID(0)))
            }
            "add_type" => {
                let id = match op["kind"].as_str().unwrap() {
                    "func" => {
                        let ps: Vec<DataType> = strs(&op["params"]).iter().map(|x| dt(x)).collect();
                        let rs: Vec<DataType> = strs(&op["results"]).iter().map(|x| dt(x)).collect();
                        if op["full"] == true {
                            module.types.add_func_type_with_params(&ps, &rs, op["super"].as_u64().map(|x| TypeID(x as u32)), op["final"].as_bool().unwrap_or(true), op["shared"].as_bool().unwrap_or(false), None)
                        } else {
                            module.types.add_func_type(&ps, &rs, None)
                        }
                    }
                    "array" => {
                        if op["full"] == true {
                            module.types.add_array_type_with_params(dt(op["elem"].as_str().unwrap()), op["mut"].as_bool().unwrap_or(false), op["super"].as_u64().map(|x| TypeID(x as u32)), op["final"].as_bool().unwrap_or(true), op["shared"].as_bool().unwrap_or(false), None)
                        } else {
                            module.types.add_array_type(dt(op["elem"].as_str().unwrap()), op["mut"].as_bool().unwrap_or(false), None)
                        }
                    }
                    _ => {
                        let fs: Vec<DataType> = op["fields"].as_array().unwrap().iter().map(|f| dt(f[0].as_str().unwrap())).collect();
                        let ms: Vec<bool> = op["fields"].as_array().unwrap().iter().map(|f| f[1].as_bool().unwrap()).collect();
                        if op["full"] == true {
                            module.types.add_struct_type_with_params(fs, ms, op["super"].as_u64().map(|x| TypeID(x as u32)), op["final"].as_bool().unwrap_or(true), op["shared"].as_bool().unwrap_or(false), None)
                        } else {
                            module.types.add_struct_type(fs, ms, None)
                        }
                    }
                };
                json!(*id)
            }
            "add_global" => {
                let id = module.add_global(init_expr(&op["init"]), dt(op["ty"].as_str().unwrap()), op["mut"].as_bool().unwrap_or(false), op["shared"].as_bool().unwrap_or(false));
                json!(*id)
            }
            "mod_init" => {
                module.mod_global_init_expr(GlobalID(op["g"].as_u64().unwrap() as u32), init_expr(&op["init"]));
                json!(0)
            }
            "add_data" => {
                let kind = if op["kind"] == "passive" {
                    DataSegmentKind::Passive
                } else {
                    DataSegmentKind::Active { memory_index: op["mem"].as_u64().unwrap_or(0) as u32, offset_expr: init_expr(&op["off"]) }
                };
                let id = module.add_data(DataSegment { kind, data: unhex(op["bytes"].as_str().unwrap()), tag: None });
                json!(*id)
            }
            "add_memory" => {
                let t = mem_ty(&op);
                if op["kind"] == "import" {
                    let (id, _) = module.add_import_memory("added".into(), format!("m{}", op["n"].as_u64().unwrap_or(0)), t);
                    json!(*id)
                } else {
                    json!(*module.add_local_memory(t))
                }
            }
            "add_iglobal" => {
                let (id, _) = module.add_imported_global("added".into(), format!("g{}", op["n"].as_u64().unwrap_or(0)), dt(op["ty"].as_str().unwrap()), op["mut"].as_bool().unwrap_or(false), false);
                json!(*id)
            }
            "add_ifunc" => {
                let (id, _) = module.add_import_func("added".into(), format!("f{}", op["n"].as_u64().unwrap_or(0)), TypeID(0));
                json!(*id)
            }
            "add_export" => {
                let nm = format!("x{}", op["n"].as_u64().unwrap_or(0));
                if op["kind"] == "mem" {
                    module.exports.add_export_mem(nm, op["id"].as_u64().unwrap() as u32, None);
                } else {
                    module.exports.add_export_func(nm, op["id"].as_u64().unwrap() as u32, None);
                }
                json!(0)
            }
            "cust_add" => {
                let nm: &'static str = Box::leak(op["name"].as_str().unwrap().to_string().into_boxed_str());
                json!(*module.custom_sections.add(CustomSection::new(nm, unhex(op["bytes"].as_str().unwrap()))))
            }
            "cust_del" => {
                module.custom_sections.delete(CustomSectionID(op["id"].as_u64().unwrap() as u32));
                json!(0)
            }
            "cust_mod" => {
                let ok = match module.custom_sections.get_section_data_mut(CustomSectionID(op["id"].as_u64().unwrap() as u32)) {
                    Some(d) => {
                        *d = unhex(op["bytes"].as_str().unwrap());
                        true
                    }
                    None => false,
                };
                json!(ok)
            }
            "cust_del_name" | "cust_mod_name" => {
                // addressed by name: get_id, then the edit on the ID it returned
                match module.custom_sections.get_id(op["name"].as_str().unwrap().to_string()) {
                    Some(id) => {
                        if name == "cust_del_name" {
                            module.custom_sections.delete(id);
                        } else if let Some(d) = module.custom_sections.get_section_data_mut(id) {
                            *d = unhex(op["bytes"].as_str().unwrap());
                        }
                        json!(*id)
                    }
                    None => json!(-1),
                }
            }
            x => panic!("harness: op {}", x),
        });
        match r {
            Ok(v) => {
                rec["panic"] = json!(false);
                rec["ret"] = v;
            }
            Err(m) => {
                rec["panic"] = json!(true);
                rec["msg"] = json!(m);
                rec["ret"] = json!(-1);
            }
        }
        // reference rendering of the request, independent of wirm
        match name.as_str() {
            "add_type" => rec["req"] = json!(ref_type(&op)),
            "build" => {
                // a built function needs its signature in the type section (deduplicated like add_func_type)
                rec["req"] = json!(ref_type(&json!({"kind":"func","params":op["params"],"results":op["results"]})));
            }
            "add_global" | "mod_init" => {
                let mut o = op.clone();
                if name == "mod_init" {
                    o["ty"] = json!("i32");
                    o["mut"] = json!(true);
                }
                rec["req"] = json!(ref_global(&o));
            }
            "add_memory" => rec["req"] = json!(ref_memory(&op)),
            "add_iglobal" => {
                rec["req"] = json!(format!("{:?}", wasmparser::GlobalType { content_type: wasmparser::ValType::from(&dt(op["ty"].as_str().unwrap())), mutable: op["mut"].as_bool().unwrap_or(false), shared: false }));
            }
            "add_data" => rec["req"] = json!(ref_data(&op)),
            _ => {}
        }
        trace.push(rec);
    }
    ev["prog"] = json!(trace);
    match guarded(|| module.encode()) {
        Ok(o) => {
            ev["encode_panic"] = json!(false);
            let v = validate(&o);
            ev["valid"] = json!(v.is_ok());
            ev["err"] = json!(v.err().unwrap_or_default());
            ev["obs"] = decode(&o).unwrap_or_else(|e| json!({"error":e}));
            // encoding again without edits must give the same bytes (the module is left as it was)
            ev["same2"] = json!(match guarded(|| module.encode()) {
                Ok(o2) => o2 == o,
                Err(_) => false,
            });
        }
        Err(m) => {
            ev["encode_panic"] = json!(true);
            ev["msg"] = json!(m);
        }
    }
    ev
}

pub fn main(args: &[String]) {
    let mut cases_path = String::new();
    let mut out_path = String::new();
    let mut i = 0;
    while i < args.len() {
        match args[i].as_str() {
            "--cases" => cases_path = args[i + 1].clone(),
            "--out" => out_path = args[i + 1].clone(),
            _ => panic!("unknown arg {}", args[i]),
        }
        i += 2;
    }
    let cases = read_lines(&cases_path);
    let mut out = Out::create(&out_path);
    for case in cases.iter() {
        out.ev(run_case(case));
    }
    out.flush();
    println!("{{\"cases\":{}}}", out.n);
}
