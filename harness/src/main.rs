mod common;
mod memops;
mod modfam;
mod lowfam;
mod lowgen;
mod iterfam;
mod compfam;
mod rtfam;
mod parsefam;
mod opcode_gen;
mod opcodefam;
mod contfam;
mod sidefam;

fn main() {
    common::install_panic_hook();
    let args: Vec<String> = std::env::args().collect();
    if args.len() < 2 {
        eprintln!("usage: conform <family> [args]");
        std::process::exit(2);
    }
    match args[1].as_str() {
        "module" => modfam::main(&args[2..]),
        "lower" => lowfam::main(&args[2..]),
        "lower-gen" => lowgen::main(&args[2..]),
        "iter" => iterfam::main(&args[2..]),
        "comp" => compfam::main(&args[2..]),
        "rt" => rtfam::main(&args[2..]),
        "parse" => parsefam::main(&args[2..]),
        "opcode" => opcodefam::main(&args[2..]),
        "content" => contfam::main(&args[2..]),
        "side" => sidefam::main(&args[2..]),
        f => {
            eprintln!("unknown family {}", f);
            std::process::exit(2);
        }
    }
}
