fn main() {
    let bytes = wat::parse_str("(module (func (export \"f\")))").unwrap();
    let bytes: &'static [u8] = Box::leak(bytes.into_boxed_slice());
    let mut m = wirm::Module::parse(bytes, true).unwrap();
    let out = m.encode();
    let mut v = wasmparser::Validator::new_with_features(wasmparser::WasmFeatures::all());
    println!("{:?} {}", v.validate_all(&out).is_ok(), wasmprinter::print_bytes(&out).unwrap());
}
