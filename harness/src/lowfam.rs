//! Lowering family (C15-C22, and C04/C05 over instrumentation plans): a generated function body
//! over a small instruction alphabet is instrumented through the real injection APIs according to
//! a plan, encoded by the real encoder, and the lowered body is decoded back into the same
//! alphabet.  spec/LowerTrace.tla then (a) compares it syntactically with the ideal splice
//! (C15, C21), (b) EXECUTES it on every decision path in lock-step with the ideal probe semantics
//! on the original body (C16-C20), (c) checks that no accepted special injection was lost (C22).
//!
//! Input : ndjson cases {"id":N,"arity":0|1,"body":[instr..],"plan":[{"p":P,"site":I,"mode":M,"api":A,"code":[instr..]}]}
//! Output: one ndjson event per case.
use crate::common::*;
use serde_json::{json, Value as J};
use std::sync::Mutex;
use wasmparser::Operator;
use wirm::ir::id::FunctionID;
use wirm::ir::types::InstrumentationMode;
use wirm::iterator::iterator_trait::{IteratingInstrumenter, Iterator as WIterator};
use wirm::iterator::module_iterator::ModuleIterator;
use wirm::opcode::{Inject, InjectAt, Instrumenter};
use wirm::{Location, Module};

pub const N_OP: u32 = 8;
pub const N_COND: u32 = 8;
pub const N_PROBE: u32 = 24;
pub const F_LOCAL: u32 = N_OP + N_COND + N_PROBE;

// ---- log capture (check_special_is_resolved reports through log::error!) -----------------
pub static LOGS: Mutex<Vec<String>> = Mutex::new(Vec::new());
struct Sink;
impl log::Log for Sink {
    fn enabled(&self, _: &log::Metadata) -> bool {
        true
    }
    fn log(&self, r: &log::Record) {
        if r.level() <= log::Level::Error {
            if let Ok(mut g) = LOGS.lock() {
                g.push(short(&format!("{}", r.args())));
            }
        }
    }
    fn flush(&self) {}
}
static SINK: Sink = Sink;
pub fn install_logger() {
    let _ = log::set_logger(&SINK);
    log::set_max_level(log::LevelFilter::Warn);
}

// ---- instruction alphabet <-> wasm -----------------------------------------------------------
pub fn instr_to_op<'a>(i: &J, t_void: u32, t_res: &dyn Fn(u64) -> wasmparser::BlockType) -> Operator<'a> {
    let _ = t_void;
    let o = i["o"].as_str().unwrap_or("");
    match o {
        "op" => Operator::Call { function_index: i["k"].as_u64().unwrap() as u32 },
        "cond" => Operator::Call { function_index: N_OP + i["k"].as_u64().unwrap() as u32 },
        "probe" => Operator::Call { function_index: N_OP + N_COND + i["p"].as_u64().unwrap() as u32 },
        "block" if i["t"] == "ref" => Operator::Block { blockty: wasmparser::BlockType::Type(wasmparser::ValType::FUNCREF) },
        "block" => Operator::Block { blockty: t_res(i["r"].as_u64().unwrap_or(0)) },
        "try" => Operator::TryTable { try_table: wasmparser::TryTable { ty: t_res(i["r"].as_u64().unwrap_or(0)), catches: vec![] } },
        "loop" => Operator::Loop { blockty: t_res(i["r"].as_u64().unwrap_or(0)) },
        "if" => Operator::If { blockty: t_res(i["r"].as_u64().unwrap_or(0)) },
        "else" => Operator::Else,
        "end" => Operator::End,
        "br" => Operator::Br { relative_depth: i["d"].as_u64().unwrap() as u32 },
        "br_if" => Operator::BrIf { relative_depth: i["d"].as_u64().unwrap() as u32 },
        "bron" => Operator::BrOnNull { relative_depth: i["d"].as_u64().unwrap() as u32 },
        "bronn" => Operator::BrOnNonNull { relative_depth: i["d"].as_u64().unwrap() as u32 },
        "brc" => Operator::BrOnCast { relative_depth: i["d"].as_u64().unwrap() as u32, from_ref_type: wasmparser::RefType::FUNCREF, to_ref_type: wasmparser::RefType::FUNCREF.as_non_null() },
        "brcf" => Operator::BrOnCastFail { relative_depth: i["d"].as_u64().unwrap() as u32, from_ref_type: wasmparser::RefType::FUNCREF, to_ref_type: wasmparser::RefType::FUNCREF.as_non_null() },
        "rnull" => Operator::RefNull { hty: wasmparser::HeapType::FUNC },
        "rfunc" => Operator::RefFunc { function_index: 0 },
        "return" => Operator::Return,
        "unreachable" => Operator::Unreachable,
        "throw" => Operator::Throw { tag_index: 0 },
        "rcall" => Operator::ReturnCall { function_index: i["k"].as_u64().unwrap() as u32 },
        "rcalli" => Operator::ReturnCallIndirect { type_index: 0, table_index: 0 },
        "nop" => Operator::Nop,
        "const" => Operator::I32Const { value: i["v"].as_i64().unwrap() as i32 },
        "drop" => Operator::Drop,
        "lget" => Operator::LocalGet { local_index: i["x"].as_u64().unwrap() as u32 },
        "lset" => Operator::LocalSet { local_index: i["x"].as_u64().unwrap() as u32 },
        _ => panic!("instr_to_op: {}", i),
    }
}

fn enc_instr(i: &J, f: &mut wasm_encoder::Function) {
    use wasm_encoder::Instruction as I;
    let bt = |r: u64| if r == 0 { wasm_encoder::BlockType::Empty } else { wasm_encoder::BlockType::Result(wasm_encoder::ValType::I32) };
    let o = i["o"].as_str().unwrap_or("");
    match o {
        "op" => f.instruction(&I::Call(i["k"].as_u64().unwrap() as u32)),
        "cond" => f.instruction(&I::Call(N_OP + i["k"].as_u64().unwrap() as u32)),
        "probe" => f.instruction(&I::Call(N_OP + N_COND + i["p"].as_u64().unwrap() as u32)),
        "block" if i["t"] == "ref" => f.instruction(&I::Block(wasm_encoder::BlockType::Result(wasm_encoder::ValType::FUNCREF))),
        "block" => f.instruction(&I::Block(bt(i["r"].as_u64().unwrap_or(0)))),
        "try" => f.instruction(&I::TryTable(bt(i["r"].as_u64().unwrap_or(0)), std::borrow::Cow::Borrowed(&[]))),
        "loop" => f.instruction(&I::Loop(bt(i["r"].as_u64().unwrap_or(0)))),
        "if" => f.instruction(&I::If(bt(i["r"].as_u64().unwrap_or(0)))),
        "else" => f.instruction(&I::Else),
        "end" => f.instruction(&I::End),
        "br" => f.instruction(&I::Br(i["d"].as_u64().unwrap() as u32)),
        "br_if" => f.instruction(&I::BrIf(i["d"].as_u64().unwrap() as u32)),
        "bron" => f.instruction(&I::BrOnNull(i["d"].as_u64().unwrap() as u32)),
        "bronn" => f.instruction(&I::BrOnNonNull(i["d"].as_u64().unwrap() as u32)),
        "brc" => f.instruction(&I::BrOnCast { relative_depth: i["d"].as_u64().unwrap() as u32, from_ref_type: wasm_encoder::RefType::FUNCREF, to_ref_type: wasm_encoder::RefType { nullable: false, heap_type: wasm_encoder::HeapType::FUNC } }),
        "brcf" => f.instruction(&I::BrOnCastFail { relative_depth: i["d"].as_u64().unwrap() as u32, from_ref_type: wasm_encoder::RefType::FUNCREF, to_ref_type: wasm_encoder::RefType { nullable: false, heap_type: wasm_encoder::HeapType::FUNC } }),
        "rnull" => f.instruction(&I::RefNull(wasm_encoder::HeapType::FUNC)),
        "rfunc" => f.instruction(&I::RefFunc(0)),
        "br_table" => {
            let ds: Vec<u32> = i["ds"].as_array().unwrap().iter().map(|x| x.as_u64().unwrap() as u32).collect();
            f.instruction(&I::BrTable(ds.into(), i["d"].as_u64().unwrap() as u32))
        }
        "return" => f.instruction(&I::Return),
        "unreachable" => f.instruction(&I::Unreachable),
        "throw" => f.instruction(&I::Throw(0)),
        "rcall" => f.instruction(&I::ReturnCall(i["k"].as_u64().unwrap() as u32)),
        "rcalli" => f.instruction(&I::ReturnCallIndirect { type_index: 0, table_index: 0 }),
        "nop" => f.instruction(&I::Nop),
        "const" => f.instruction(&I::I32Const(i["v"].as_i64().unwrap() as i32)),
        "drop" => f.instruction(&I::Drop),
        "lget" => f.instruction(&I::LocalGet(i["x"].as_u64().unwrap() as u32)),
        "lset" => f.instruction(&I::LocalSet(i["x"].as_u64().unwrap() as u32)),
        _ => panic!("enc_instr: {}", i),
    };
}

/// Build the module: imports op*, cond*, probe*; one local function (index F_LOCAL) exported as "f".
pub fn build_module(body: &[J], arity: u64, nlocals: u32) -> Vec<u8> {
    build_module_x(body, arity, nlocals, false)
}

/// `imports_only`: no local function at all; the function under test is a further IMPORT (last, so that it has
/// index F_LOCAL) which the caller replaces by a built function (FunctionBuilder::replace_import_in_module).
pub fn build_module_x(body: &[J], arity: u64, nlocals: u32, imports_only: bool) -> Vec<u8> {
    use wasm_encoder::*;
    let mut m = Module::new();
    let mut types = TypeSection::new();
    types.ty().function(vec![], vec![]); // 0
    types.ty().function(vec![], vec![ValType::I32]); // 1
    types.ty().function(vec![], vec![ValType::I32, ValType::I32]); // 2
    types.ty().function(vec![ValType::I32], vec![ValType::I64]); // 3: aux function 1
    types.ty().function(vec![ValType::I32], vec![ValType::F32]); // 4: aux function 2
    m.section(&types);
    let mut imps = ImportSection::new();
    for k in 0..N_OP {
        imps.import("env", &format!("op{}", k), EntityType::Function(0));
    }
    for k in 0..N_COND {
        imps.import("env", &format!("cond{}", k), EntityType::Function(1));
    }
    for k in 0..N_PROBE {
        imps.import("env", &format!("probe{}", k), EntityType::Function(0));
    }
    if imports_only {
        imps.import("env", "self", EntityType::Function(arity.min(2) as u32));
    }
    m.section(&imps);
    if !imports_only {
        let mut funcs = FunctionSection::new();
        funcs.function(arity.min(2) as u32);
        // two auxiliary local functions behind the one under test, with parameters and different results (their
        // function-exit wrapper types `[] -> results` are not in the module: see case field aux_exit)
        funcs.function(3);
        funcs.function(4);
        m.section(&funcs);
    }
    // table 0 holds op 3 in slot 0 (return_call_indirect)
    let mut tables = TableSection::new();
    tables.table(TableType { element_type: RefType::FUNCREF, minimum: 1, maximum: None, table64: false, shared: false });
    m.section(&tables);
    // tag 0 (no parameters) for `throw`
    let mut tags = TagSection::new();
    tags.tag(TagType { kind: TagKind::Exception, func_type_idx: 0 });
    m.section(&tags);
    let mut ex = ExportSection::new();
    ex.export("f", ExportKind::Func, F_LOCAL);
    m.section(&ex);
    // function 0 is declared (ref.func 0 in the body)
    let mut elems = ElementSection::new();
    elems.declared(Elements::Functions(std::borrow::Cow::Borrowed(&[0])));
    elems.active(Some(0), &ConstExpr::i32_const(0), Elements::Functions(std::borrow::Cow::Borrowed(&[3])));
    m.section(&elems);
    if imports_only {
        return m.finish();
    }
    let mut code = CodeSection::new();
    let locals = if nlocals > 0 { vec![(nlocals, ValType::I32)] } else { vec![] };
    let mut f = Function::new(locals);
    for i in body {
        enc_instr(i, &mut f);
    }
    code.function(&f);
    let mut a1 = Function::new(vec![]);
    a1.instruction(&wasm_encoder::Instruction::I64Const(0));
    a1.instruction(&wasm_encoder::Instruction::End);
    code.function(&a1);
    let mut a2 = Function::new(vec![]);
    a2.instruction(&wasm_encoder::Instruction::F32Const(0.0f32.into()));
    a2.instruction(&wasm_encoder::Instruction::End);
    code.function(&a2);
    m.section(&code);
    m.finish()
}

/// Decode the local function of an encoded module back into the alphabet.
pub fn decode_body(bytes: &[u8]) -> Result<(Vec<J>, Vec<String>), String> {
    let mut types: Vec<(usize, usize)> = vec![];
    let mut fnames: Vec<String> = vec![]; // imported function names, in function-index order
    let mut out = vec![];
    let mut locals = vec![];
    let mut seen = false;
    for p in wasmparser::Parser::new(0).parse_all(bytes) {
        let p = p.map_err(|e| e.to_string())?;
        match p {
            wasmparser::Payload::TypeSection(r) => {
                for g in r {
                    let g = g.map_err(|e| e.to_string())?;
                    for st in g.types() {
                        if let wasmparser::CompositeInnerType::Func(ft) = &st.composite_type.inner {
                            types.push((ft.params().len(), ft.results().len()));
                        } else {
                            types.push((99, 99));
                        }
                    }
                }
            }
            wasmparser::Payload::ImportSection(r) => {
                for i in r {
                    let i = i.map_err(|e| e.to_string())?;
                    if let wasmparser::TypeRef::Func(_) = i.ty {
                        fnames.push(i.name.to_string());
                    }
                }
            }
            wasmparser::Payload::CodeSectionEntry(b) => {
                if seen {
                    continue; // the auxiliary functions behind the function under test are not decoded
                }
                seen = true;
                for l in b.get_locals_reader().map_err(|e| e.to_string())? {
                    let (n, t) = l.map_err(|e| e.to_string())?;
                    for _ in 0..n {
                        locals.push(format!("{:?}", t));
                    }
                }
                for op in b.get_operators_reader().map_err(|e| e.to_string())? {
                    let op = op.map_err(|e| e.to_string())?;
                    let bt = |b: &wasmparser::BlockType| -> J {
                        match b {
                            wasmparser::BlockType::Empty => json!(0),
                            wasmparser::BlockType::Type(_) => json!(1),
                            wasmparser::BlockType::FuncType(t) => match types.get(*t as usize) {
                                Some((0, r)) => json!(r),
                                _ => json!(-1),
                            },
                        }
                    };
                    let j = match &op {
                        Operator::Call { function_index } => {
                            // identity of the callee = the name of the import the index designates
                            let name = fnames.get(*function_index as usize).cloned().unwrap_or_default();
                            let num = |pre: &str| name.strip_prefix(pre).and_then(|x| x.parse::<u32>().ok());
                            if let Some(k) = num("op") {
                                json!({"o":"op","k":k})
                            } else if let Some(k) = num("cond") {
                                json!({"o":"cond","k":k})
                            } else if let Some(p) = num("probe") {
                                json!({"o":"probe","p":p})
                            } else {
                                json!({"o":"foreign","txt":format!("call {} ({})", function_index, name)})
                            }
                        }
                        Operator::Block { blockty } => json!({"o":"block","r":bt(blockty)}),
                        Operator::TryTable { try_table } if try_table.catches.is_empty() => json!({"o":"try","r":bt(&try_table.ty)}),
                        Operator::Loop { blockty } => json!({"o":"loop","r":bt(blockty)}),
                        Operator::If { blockty } => json!({"o":"if","r":bt(blockty)}),
                        Operator::Else => json!({"o":"else"}),
                        Operator::End => json!({"o":"end"}),
                        Operator::Br { relative_depth } => json!({"o":"br","d":relative_depth}),
                        Operator::BrIf { relative_depth } => json!({"o":"br_if","d":relative_depth}),
                        Operator::BrOnNull { relative_depth } => json!({"o":"bron","d":relative_depth}),
                        Operator::BrOnNonNull { relative_depth } => json!({"o":"bronn","d":relative_depth}),
                        Operator::BrOnCast { relative_depth, .. } => json!({"o":"brc","d":relative_depth}),
                        Operator::BrOnCastFail { relative_depth, .. } => json!({"o":"brcf","d":relative_depth}),
                        Operator::RefNull { .. } => json!({"o":"rnull"}),
                        Operator::RefFunc { function_index } => {
                            if fnames.get(*function_index as usize).map(|n| n == "op0").unwrap_or(false) {
                                json!({"o":"rfunc"})
                            } else {
                                json!({"o":"foreign","txt":format!("ref.func {}", function_index)})
                            }
                        }
                        Operator::BrTable { targets } => {
                            let ds: Vec<u32> = targets.targets().map(|t| t.unwrap_or(9999)).collect();
                            json!({"o":"br_table","ds":ds,"d":targets.default()})
                        }
                        Operator::Return => json!({"o":"return"}),
                        Operator::Unreachable => json!({"o":"unreachable"}),
                        Operator::Throw { tag_index: 0 } => json!({"o":"throw"}),
                        Operator::ReturnCallIndirect { type_index: 0, table_index: 0 } => json!({"o":"rcalli"}),
                        Operator::ReturnCall { function_index } => {
                            let name = fnames.get(*function_index as usize).cloned().unwrap_or_default();
                            match name.strip_prefix("op").and_then(|x| x.parse::<u32>().ok()) {
                                Some(k) => json!({"o":"rcall","k":k}),
                                None => json!({"o":"foreign","txt":format!("return_call {}", name)}),
                            }
                        }
                        Operator::Nop => json!({"o":"nop"}),
                        Operator::I32Const { value } => json!({"o":"const","v":value}),
                        Operator::Drop => json!({"o":"drop"}),
                        Operator::LocalGet { local_index } => json!({"o":"lget","x":local_index}),
                        Operator::LocalSet { local_index } => json!({"o":"lset","x":local_index}),
                        other => json!({"o":"foreign","txt":short(&format!("{:?}", other))}),
                    };
                    out.push(j);
                }
            }
            _ => {}
        }
    }
    if !seen {
        return Err("no local function in output".into());
    }
    Ok((out, locals))
}

fn mode_of(s: &str) -> Option<InstrumentationMode> {
    Some(match s {
        "before" => InstrumentationMode::Before,
        "after" => InstrumentationMode::After,
        "alternate" => InstrumentationMode::Alternate,
        "semantic_after" => InstrumentationMode::SemanticAfter,
        "block_entry" => InstrumentationMode::BlockEntry,
        "block_exit" => InstrumentationMode::BlockExit,
        "block_alt" => InstrumentationMode::BlockAlt,
        _ => return None,
    })
}

/// Apply one plan entry through the requested API path. Returns Err(panic message) if rejected.
/// The module under test, either on its own or as core module 0 of a component (for the ComponentIterator paths).
pub struct Holder {
    comp: Option<wirm::Component<'static>>,
    module: Option<Module<'static>>,
    /// position of the module under test in the component (1 when a decoy copy of it sits in front)
    midx: usize,
}
impl Holder {
    pub fn m(&mut self) -> &mut Module<'static> {
        let k = self.midx;
        match &mut self.comp {
            Some(c) => &mut c.modules[k],
            None => self.module.as_mut().expect("module"),
        }
    }
}
fn loc_mod(l: Location) -> usize {
    match l {
        Location::Module { .. } => 0,
        Location::Component { mod_idx, .. } => *mod_idx as usize,
    }
}
fn loc_instr(l: Location) -> usize {
    match l {
        Location::Module { instr_idx, .. } => instr_idx,
        Location::Component { instr_idx, .. } => instr_idx,
    }
}

/// the iterator-driven injection, for ModuleIterator and ComponentIterator alike
macro_rules! drive_iterator {
    ($it:ident, $mode:ident, $api_at:expr, $site:ident, $code:ident, $tag:ident) => {
        match $mode.as_str() {
            "func_entry" => {
                $it.func_entry();
                $it.inject_all(&$code);
                if let Some(t) = &$tag {
                    $it.append_to_tag(t.clone());
                }
            }
            "func_exit" => {
                $it.func_exit();
                $it.inject_all(&$code);
                if let Some(t) = &$tag {
                    $it.append_to_tag(t.clone());
                }
            }
            _ => {
                if $api_at {
                    // stay at instruction 0 and address the site by index
                    let m = mode_of(&$mode).expect("inject_at needs a plain mode");
                    for op in $code.iter() {
                        $it.inject_at($site as usize, m, op.clone());
                    }
                } else {
                    loop {
                        if loc_instr($it.curr_loc().0) as i64 == $site {
                            break;
                        }
                        if $it.next().is_none() {
                            panic!("harness: site {} not reached", $site);
                        }
                    }
                    match $mode.as_str() {
                        "before" => {
                            $it.before();
                        }
                        "after" => {
                            $it.after();
                        }
                        "alternate" => {
                            $it.alternate();
                        }
                        "empty_alternate" => {
                            $it.empty_alternate();
                        }
                        "semantic_after" => {
                            $it.semantic_after();
                        }
                        "block_entry" => {
                            $it.block_entry();
                        }
                        "block_exit" => {
                            $it.block_exit();
                        }
                        "block_alt" => {
                            $it.block_alt();
                        }
                        "empty_block_alt" => {
                            $it.empty_block_alt();
                        }
                        m => panic!("harness: mode {}", m),
                    }
                    $it.inject_all(&$code);
                    if let Some(t) = &$tag {
                        $it.append_to_tag(t.clone());
                    }
                    $it.finish_instr();
                }
            }
        }
    };
}

fn inject_one(h: &mut Holder, e: &J) -> Result<(), String> {
    let site = e["site"].as_i64().unwrap_or(-1);
    let mode = e["mode"].as_str().unwrap_or("").to_string();
    let api = e["api"].as_str().unwrap_or("iter").to_string();
    let tag: Option<Vec<u8>> = e["tag"].as_str().map(|s| s.as_bytes().to_vec());
    let empty = vec![];
    let code: Vec<Operator<'static>> = e["code"]
        .as_array()
        .unwrap_or(&empty)
        .iter()
        .map(|i| instr_to_op(i, 0, &|r| if r == 0 { wasmparser::BlockType::Empty } else { wasmparser::BlockType::Type(wasmparser::ValType::I32) }))
        .collect();
    let fid = FunctionID(F_LOCAL);
    let r = guarded(|| {
        if mode == "clear" {
            // clear_instr_at(site, what): withdraw what was injected there in that mode
            let what = mode_of(e["what"].as_str().unwrap_or("")).expect("clear: plain mode");
            match api.as_str() {
                "comp" | "comp_at" | "comp_loc" => {
                    let midx = h.midx;
                    let comp = h.comp.as_mut().expect("harness: comp api without a component");
                    let mut it = wirm::iterator::component_iterator::ComponentIterator::new(comp, std::collections::HashMap::new());
                    it.clear_instr_at(Location::Component { mod_idx: wirm::ir::id::ModuleID(midx as u32), func_idx: fid, instr_idx: site.max(0) as usize }, what);
                }
                "iter" | "iter_at" => {
                    let mut it = ModuleIterator::new(h.m(), &vec![]);
                    it.clear_instr_at(Location::Module { func_idx: fid, instr_idx: site.max(0) as usize }, what);
                }
                _ => {
                    let mut fm = h.m().functions.get_fn_modifier(fid).expect("no function modifier");
                    fm.clear_instr_at(Location::Module { func_idx: fid, instr_idx: site.max(0) as usize }, what);
                }
            }
            return;
        }
        match api.as_str() {
            "iter" | "iter_at" => {
                let mut it = ModuleIterator::new(h.m(), &vec![]);
                let at = api == "iter_at";
                drive_iterator!(it, mode, at, site, code, tag);
            }
            "comp" | "comp_at" => {
                // the same through a ComponentIterator over the component that holds the module
                let midx = h.midx;
                let comp = h.comp.as_mut().expect("harness: comp api without a component");
                let mut it = wirm::iterator::component_iterator::ComponentIterator::new(comp, std::collections::HashMap::new());
                // walk to the module under test (a decoy copy of it may sit in front)
                while loc_mod(it.curr_loc().0) != midx {
                    if it.next().is_none() {
                        panic!("harness: module {} not reached", midx);
                    }
                }
                let at = api == "comp_at";
                drive_iterator!(it, mode, at, site, code, tag);
            }
            "comp_loc" => {
                // the iterator stays where it starts (the decoy module in front); the site is addressed by an
                // explicit Location that names the module under test
                let midx = h.midx;
                let comp = h.comp.as_mut().expect("harness: comp api without a component");
                let mut it = wirm::iterator::component_iterator::ComponentIterator::new(comp, std::collections::HashMap::new());
                let loc = Location::Component { mod_idx: wirm::ir::id::ModuleID(midx as u32), func_idx: fid, instr_idx: site.max(0) as usize };
                match mode.as_str() {
                    "before" => {
                        it.before_at(loc);
                    }
                    "after" => {
                        it.after_at(loc);
                    }
                    "alternate" => {
                        it.alternate_at(loc);
                    }
                    "empty_alternate" => {
                        it.empty_alternate_at(loc);
                    }
                    "semantic_after" => {
                        it.semantic_after_at(loc);
                    }
                    "block_entry" => {
                        it.block_entry_at(loc);
                    }
                    "block_exit" => {
                        it.block_exit_at(loc);
                    }
                    "block_alt" => {
                        it.block_alt_at(loc);
                    }
                    "empty_block_alt" => {
                        it.empty_block_alt_at(loc);
                    }
                    m => panic!("harness: mode {}", m),
                }
                for op in code.iter() {
                    it.add_instr_at(loc, op.clone());
                }
                if let Some(t) = &tag {
                    it.append_tag_at(t.clone(), loc);
                }
            }
            _ => {
                // "mod" (FunctionModifier at a location) and "mod_at" (FunctionModifier::inject_at)
                let mut fm = h.m().functions.get_fn_modifier(fid).expect("no function modifier");
                let loc = Location::Module { func_idx: fid, instr_idx: site.max(0) as usize };
                match mode.as_str() {
                    "func_entry" => {
                        fm.func_entry();
                        fm.inject_all(&code);
                        if let Some(t) = &tag {
                            fm.append_tag_at(t.clone(), loc);
                        }
                    }
                    "func_exit" => {
                        fm.func_exit();
                        fm.inject_all(&code);
                        if let Some(t) = &tag {
                            fm.append_tag_at(t.clone(), loc);
                        }
                    }
                    _ => {
                        if api == "mod_at" {
                            let m = mode_of(&mode).expect("inject_at needs a plain mode");
                            for op in code.iter() {
                                fm.inject_at(site as usize, m, op.clone());
                            }
                        } else {
                            match mode.as_str() {
                                "before" => {
                                    fm.before_at(loc);
                                }
                                "after" => {
                                    fm.after_at(loc);
                                }
                                "alternate" => {
                                    fm.alternate_at(loc);
                                }
                                "empty_alternate" => {
                                    fm.empty_alternate_at(loc);
                                }
                                "semantic_after" => {
                                    fm.semantic_after_at(loc);
                                }
                                "block_entry" => {
                                    fm.block_entry_at(loc);
                                }
                                "block_exit" => {
                                    fm.block_exit_at(loc);
                                }
                                "block_alt" => {
                                    fm.block_alt_at(loc);
                                }
                                "empty_block_alt" => {
                                    fm.empty_block_alt_at(loc);
                                }
                                m => panic!("harness: mode {}", m),
                            }
                            fm.inject_all(&code);
                            if let Some(t) = &tag {
                                fm.append_tag_at(t.clone(), loc);
                            }
                        }
                    }
                }
                fm.finish_instr();
            }
        }
    });
    // reset a function-level mode left behind by func_entry()/func_exit() (get_fn_modifier does it)
    let _ = guarded(|| {
        let _ = h.m().functions.get_fn_modifier(fid);
    });
    r
}

pub struct CaseOut {
    pub ev: J,
    pub bytes: Option<Vec<u8>>,
    /// when a second encode() without edits yields different bytes, the second output is a module
    /// of its own that must satisfy the same properties: it is judged as a derived case
    pub second: Option<J>,
}

pub fn run_case(case: &J, enc2: bool) -> CaseOut {
    let id = case["id"].as_u64().unwrap_or(0);
    let arity = case["arity"].as_u64().unwrap_or(0);
    let nlocals = case["nlocals"].as_u64().unwrap_or(0) as u32;
    let body: Vec<J> = case["body"].as_array().cloned().unwrap_or_default();
    let plan: Vec<J> = case["plan"].as_array().cloned().unwrap_or_default();
    let input = build_module(&body, arity, nlocals);
    let mut ev = json!({"t":"case","id":id,"arity":arity,"nlocals":nlocals,"orig":body});
    if let Some(s) = case["src"].as_str() {
        ev["src"] = json!(s);
    }
    if let Err(e) = validate(&input) {
        ev["skip"] = json!(format!("invalid input: {}", e));
        return CaseOut { ev, bytes: None, second: None };
    }
    // the original body in the decoder's normal form (also cross-checks encoder/decoder of the harness)
    match decode_body(&input) {
        Ok((orig, _)) => ev["orig"] = json!(orig),
        Err(e) => {
            ev["skip"] = json!(format!("harness decode: {}", e));
            return CaseOut { ev, bytes: None, second: None };
        }
    }
    let via_replace = case["pre"].as_str() == Some("via_replace");
    let input = if via_replace { build_module_x(&body, arity, nlocals, true) } else { input };
    // plans that use a ComponentIterator path run on the module wrapped in a component
    let uses_comp = plan.iter().any(|e| e["api"].as_str().map(|a| a.starts_with("comp")).unwrap_or(false));
    let decoy = plan.iter().any(|e| e["api"] == "comp_loc");
    let mut h = if uses_comp {
        let mut c = wasm_encoder::Component::new();
        if decoy {
            // a copy of the module in front: an injection routed to the wrong module goes there silently
            c.section(&wasm_encoder::RawSection { id: wasm_encoder::ComponentSectionId::CoreModule as u8, data: &input });
        }
        c.section(&wasm_encoder::RawSection { id: wasm_encoder::ComponentSectionId::CoreModule as u8, data: &input });
        let cbytes = leak(c.finish());
        match guarded(|| wirm::Component::parse(cbytes, false)) {
            Ok(Ok(c)) => Holder { comp: Some(c), module: None, midx: if decoy { 1 } else { 0 } },
            other => {
                ev["skip"] = json!(format!("component parse: {:?}", other.err()));
                return CaseOut { ev, bytes: None, second: None };
            }
        }
    } else {
        let input = leak(input);
        match guarded(|| Module::parse(input, false)) {
            Ok(Ok(m)) => Holder { comp: None, module: Some(m), midx: 0 },
            Ok(Err(e)) => {
                ev["skip"] = json!(format!("parse error: {:?}", e));
                return CaseOut { ev, bytes: None, second: None };
            }
            Err(p) => {
                ev["skip"] = json!(format!("parse panic: {}", p));
                return CaseOut { ev, bytes: None, second: None };
            }
        }
    };
    if let Ok(mut g) = LOGS.lock() {
        g.clear();
    }
    // optional module edits that force re-indexing of every call (cross-family: index spaces x lowering)
    match case["pre"].as_str().unwrap_or("") {
        "del_imp" => {
            // delete the (unused) imported function op7: everything behind it moves down by one
            let _ = guarded(|| h.m().delete_func(FunctionID(N_OP - 1)));
        }
        "add_imp" => {
            let _ = guarded(|| h.m().add_import_func("env".to_string(), "extra".to_string(), wirm::ir::id::TypeID(0)));
        }
        "via_replace" => {
            // the module has no local function: the body under test is built and replaces the last import
            use wirm::ir::function::FunctionBuilder;
            use wirm::module_builder::AddLocal;
            use wirm::ir::types::DataType;
            let r = guarded(|| {
                let res: Vec<DataType> = (0..arity).map(|_| DataType::I32).collect();
                let mut fb = FunctionBuilder::new(&[], &res);
                for _ in 0..nlocals {
                    fb.add_local(DataType::I32);
                }
                let n = body.len();
                for (k, i) in body.iter().enumerate() {
                    if k + 1 == n {
                        break; // the builder appends the final end
                    }
                    fb.inject(instr_to_op(i, 0, &|r| if r == 0 { wasmparser::BlockType::Empty } else { wasmparser::BlockType::Type(wasmparser::ValType::I32) }));
                }
                fb.replace_import_in_module(h.m(), wirm::ir::id::ImportsID(N_OP + N_COND + N_PROBE));
            });
            if let Err(m) = r {
                ev["skip"] = json!(format!("harness: via_replace failed: {}", m));
                return CaseOut { ev, bytes: None, second: None };
            }
        }
        _ => {}
    }
    if let Some(p) = case["pre"].as_str() {
        ev["pre"] = json!(p);
    }
    // function-exit probes on BOTH auxiliary functions: each needs a new wrapper type, and the order in which the
    // functions are lowered must not depend on anything but the module
    if case["aux_exit"] == true && !via_replace {
        for a in 1..=2u32 {
            let _ = guarded(|| {
                let mut fm = h.m().functions.get_fn_modifier(FunctionID(F_LOCAL + a)).expect("aux function");
                fm.func_exit();
                fm.inject(Operator::Call { function_index: N_OP + N_COND + N_PROBE - 1 });
                fm.finish_instr();
            });
        }
        ev["aux_exit"] = json!(true);
    }
    let mut plan_out = vec![];
    let mut k = 0usize;
    while k < plan.len() {
        let e = &plan[k];
        // a function-level probe through a FunctionModifier followed by entries "mod_at_chained": all of them go
        // through ONE modifier (func_entry()/func_exit(); inject; then inject_at ... ; finish_instr at the very end)
        let n_chain = plan[k + 1..].iter().take_while(|x| x["api"] == "mod_at_chained").count();
        if n_chain > 0 && e["api"] == "mod" && (e["mode"] == "func_entry" || e["mode"] == "func_exit") {
            let group: Vec<J> = plan[k..=k + n_chain].to_vec();
            let r = guarded(|| {
                let conv = |c: &J| -> Vec<Operator<'static>> {
                    c.as_array().cloned().unwrap_or_default().iter()
                        .map(|i| instr_to_op(i, 0, &|r| if r == 0 { wasmparser::BlockType::Empty } else { wasmparser::BlockType::Type(wasmparser::ValType::I32) }))
                        .collect()
                };
                let mut fm = h.m().functions.get_fn_modifier(FunctionID(F_LOCAL)).expect("no function modifier");
                if group[0]["mode"] == "func_entry" {
                    fm.func_entry();
                } else {
                    fm.func_exit();
                }
                fm.inject_all(&conv(&group[0]["code"]));
                for g in group[1..].iter() {
                    let m = mode_of(g["mode"].as_str().unwrap_or("")).expect("chained entries use plain modes");
                    for op in conv(&g["code"]) {
                        fm.inject_at(g["site"].as_u64().unwrap_or(0) as usize, m, op);
                    }
                }
                fm.finish_instr();
            });
            for g in group.iter() {
                let mut pe = g.clone();
                pe["acc"] = json!(r.is_ok());
                if let Err(m) = &r {
                    pe["msg"] = json!(m);
                }
                plan_out.push(pe);
            }
            k += n_chain + 1;
            continue;
        }
        k += 1;
        let mut pe = e.clone();
        match inject_one(&mut h, e) {
            Ok(()) => pe["acc"] = json!(true),
            Err(m) => {
                pe["acc"] = json!(false);
                pe["msg"] = json!(m);
            }
        }
        plan_out.push(pe);
    }
    ev["plan"] = json!(plan_out);
    let r = guarded(|| h.m().encode());
    let bugs: Vec<String> = LOGS.lock().map(|g| g.clone()).unwrap_or_default();
    ev["bugs"] = json!(bugs);
    match r {
        Err(m) => {
            ev["encode_panic"] = json!(true);
            ev["msg"] = json!(m);
            ev["low"] = json!([]);
            ev["locals"] = json!([]);
            ev["valid"] = json!(false);
            ev["err"] = json!("");
            ev["same2"] = json!(true);
            ev["nd"] = json!(false);
            CaseOut { ev, bytes: None, second: None }
        }
        Ok(out) => {
            ev["encode_panic"] = json!(false);
            ev["msg"] = json!("");
            let v = validate(&out);
            ev["valid"] = json!(v.is_ok());
            ev["err"] = json!(v.err().unwrap_or_default());
            match decode_body(&out) {
                Ok((low, locals)) => {
                    ev["low"] = json!(low);
                    ev["locals"] = json!(locals);
                }
                Err(e) => {
                    ev["low"] = json!([{"o":"foreign","txt":e}]);
                    ev["locals"] = json!([]);
                }
            }
            let mut second = None;
            let same2 = if enc2 {
                match guarded(|| h.m().encode()) {
                    Ok(o2) => {
                        if o2 != out {
                            let mut e2 = ev.clone();
                            e2["id"] = json!(id + 10_000_000);
                            e2["second"] = json!(true);
                            let v = validate(&o2);
                            e2["valid"] = json!(v.is_ok());
                            e2["err"] = json!(v.err().unwrap_or_default());
                            match decode_body(&o2) {
                                Ok((low, locals)) => {
                                    e2["low"] = json!(low);
                                    e2["locals"] = json!(locals);
                                }
                                Err(e) => {
                                    e2["low"] = json!([{"o":"foreign","txt":e}]);
                                    e2["locals"] = json!([]);
                                }
                            }
                            e2["same2"] = json!(true);
                            e2["nd"] = json!(false);
                            second = Some(e2);
                        }
                        o2 == out
                    }
                    Err(_) => false,
                }
            } else {
                true
            };
            ev["same2"] = json!(same2);
            ev["nd"] = json!(false);
            CaseOut { ev, bytes: Some(out), second }
        }
    }
}

pub fn main(args: &[String]) {
    install_logger();
    let mut cases_path = String::new();
    let mut out_path = String::new();
    let mut reps = 2usize;
    let mut i = 0;
    while i < args.len() {
        match args[i].as_str() {
            "--cases" => {
                cases_path = args[i + 1].clone();
                i += 1
            }
            "--out" => {
                out_path = args[i + 1].clone();
                i += 1
            }
            "--reps" => {
                reps = args[i + 1].parse().unwrap();
                i += 1
            }
            _ => panic!("unknown arg {}", args[i]),
        }
        i += 1;
    }
    let cases = read_lines(&cases_path);
    let mut out = Out::create(&out_path);
    let mut skipped = 0;
    for case in cases.iter() {
        let mut first = run_case(case, true);
        for _ in 1..reps {
            let again = run_case(case, true);
            if again.bytes != first.bytes {
                first.ev["nd"] = json!(true);
            }
        }
        if !first.ev["skip"].is_null() {
            skipped += 1;
        }
        // C26: the same plan through module-level iterators must give the same encoded module
        let uses_comp = case["plan"].as_array().map(|p| p.iter().any(|e| e["api"].as_str().map(|a| a.starts_with("comp")).unwrap_or(false))).unwrap_or(false);
        if uses_comp && first.ev["skip"].is_null() {
            let mut twin = case.clone();
            for e in twin["plan"].as_array_mut().unwrap().iter_mut() {
                let a = e["api"].as_str().unwrap_or("").to_string();
                if a == "comp" {
                    e["api"] = json!("iter");
                } else if a == "comp_at" {
                    e["api"] = json!("iter_at");
                } else if a == "comp_loc" {
                    let plain = mode_of(e["mode"].as_str().unwrap_or("")).is_some();
                    e["api"] = json!(if plain { "iter_at" } else { "iter" });
                }
            }
            let t = run_case(&twin, false);
            first.ev["twin_same"] = json!(t.bytes == first.bytes);
        }
        out.ev(first.ev);
        if let Some(s) = first.second {
            out.ev(s);
        }
    }
    out.flush();
    println!("{{\"cases\":{},\"skipped\":{}}}", out.n, skipped);
}
