//! Seeded random generator of (body, plan) cases for the lowering family: larger bodies than the
//! TLC generator (MC_Lower.tla) reaches exhaustively, same validity discipline and the same
//! "only plans the statements constrain" rules.  Output: ndjson cases for `conform lower`.
use rand::rngs::StdRng;
use rand::{Rng, SeedableRng};
use serde_json::{json, Value as J};

struct G {
    rng: StdRng,
    body: Vec<J>,
    kinds: Vec<&'static str>, // open constructs, outermost first
    nop: u64,
    ncond: u64,
    arity: u64,
    max_depth: usize,
    refbr: bool, // also emit the reference-carrying branches inside a funcref-typed block (DESIGN 10.1)
}

impl G {
    fn cond(&mut self) -> J {
        let k = self.ncond % 8;
        self.ncond += 1;
        json!({"o":"cond","k":k})
    }
    /// closed item: block (result funcref) ; reference ; br_on_non_null | br_on_cast | br_on_cast_fail 0 ;
    /// [a reference when the fall-through left none] ; end ; drop
    fn ref_item(&mut self, budget: &mut i32) {
        let rf = if self.rng.gen_bool(0.5) { "rnull" } else { "rfunc" };
        let b = ["bronn", "brc", "brcf"][self.rng.gen_range(0..3)];
        self.body.push(json!({"o":"block","r":1,"t":"ref"}));
        self.body.push(json!({"o":rf}));
        self.body.push(json!({"o":b,"d":0}));
        if b == "bronn" {
            self.body.push(json!({"o":"rfunc"}));
        }
        self.body.push(json!({"o":"end"}));
        self.body.push(json!({"o":"drop"}));
        *budget -= 6;
    }
    /// emit a sequence of instructions inside the current construct; returns true if it ended in an
    /// unconditional transfer
    fn seq(&mut self, budget: &mut i32) -> bool {
        let n = self.rng.gen_range(0..5);
        for _ in 0..n {
            if *budget <= 0 {
                return false;
            }
            let depth = self.kinds.len();
            let r = self.rng.gen_range(0..100);
            if self.refbr && r < 12 && *budget >= 6 {
                self.ref_item(budget);
            } else if r < 30 {
                let k = self.nop % 8;
                self.nop += 1;
                self.body.push(json!({"o":"op","k":k}));
                *budget -= 1;
            } else if r < 35 {
                self.body.push(json!({"o":"nop"}));
                *budget -= 1;
            } else if r < 48 && depth < self.max_depth {
                // one block in five is a try_table without catch clauses
                let o = if self.rng.gen_range(0..5) == 0 { "try" } else { "block" };
                self.body.push(json!({"o":o,"r":0}));
                self.kinds.push(if o == "try" { "try" } else { "block" });
                *budget -= 2;
                self.seq(budget);
                self.kinds.pop();
                self.body.push(json!({"o":"end"}));
            } else if r < 58 && depth < self.max_depth {
                self.body.push(json!({"o":"loop","r":0}));
                self.kinds.push("loop");
                *budget -= 2;
                self.seq(budget);
                self.kinds.pop();
                self.body.push(json!({"o":"end"}));
            } else if r < 72 && depth < self.max_depth {
                let c = self.cond();
                self.body.push(c);
                self.body.push(json!({"o":"if","r":0}));
                self.kinds.push("if");
                *budget -= 3;
                self.seq(budget);
                if self.rng.gen_bool(0.5) {
                    self.body.push(json!({"o":"else"}));
                    *budget -= 1;
                    self.seq(budget);
                }
                self.kinds.pop();
                self.body.push(json!({"o":"end"}));
            } else if r < 80 {
                let c = self.cond();
                let d = self.pick_depth(false);
                if let Some(d) = d {
                    self.body.push(c);
                    self.body.push(json!({"o":"br_if","d":d}));
                    *budget -= 2;
                } else {
                    self.ncond -= 1;
                }
            } else if r < 86 {
                let d = self.pick_depth(true).unwrap();
                if d == depth as u64 {
                    for a in 0..self.arity {
                        self.body.push(json!({"o":"const","v":8 + 10 * a}));
                    }
                }
                self.body.push(json!({"o":"br","d":d}));
                *budget -= 1;
                return true;
            } else if r < 88 {
                // a reference (null: the branch is taken; not null: it falls through), br_on_null, drop
                if self.refbr && *budget >= 6 {
                    self.ref_item(budget);
                } else if let Some(d) = self.pick_depth(false) {
                    let rf = if self.rng.gen_bool(0.5) { "rnull" } else { "rfunc" };
                    self.body.push(json!({"o":rf}));
                    self.body.push(json!({"o":"bron","d":d}));
                    self.body.push(json!({"o":"drop"}));
                    *budget -= 3;
                }
            } else if r < 92 {
                let a = self.pick_depth(false);
                let b = self.pick_depth(false);
                if let (Some(a), Some(b)) = (a, b) {
                    let c = self.cond();
                    let ds = match self.rng.gen_range(0..3) {
                        0 => vec![a],
                        1 => vec![a, b],
                        _ => vec![a, a],
                    };
                    let dflt = if self.rng.gen_bool(0.5) { a } else { b };
                    self.body.push(c);
                    self.body.push(json!({"o":"br_table","ds":ds,"d":dflt}));
                    *budget -= 2;
                    return true;
                }
            } else if r < 96 {
                for a in 0..self.arity {
                    self.body.push(json!({"o":"const","v":9 + 10 * a}));
                }
                self.body.push(json!({"o":"return"}));
                *budget -= 1;
                return true;
            } else {
                // ways out that are neither a return nor a branch: unreachable, throw, tail call (void functions)
                let o = match self.rng.gen_range(0..4) {
                    0 => json!({"o":"throw"}),
                    1 if self.arity == 0 => {
                        if self.rng.gen_bool(0.5) {
                            json!({"o":"rcall","k":3})
                        } else {
                            self.body.push(json!({"o":"const","v":0}));
                            json!({"o":"rcalli"})
                        }
                    }
                    _ => json!({"o":"unreachable"}),
                };
                self.body.push(o);
                *budget -= 1;
                return true;
            }
        }
        false
    }
    /// a relative depth; the function label (depth == kinds.len()) only if allowed for this arity
    fn pick_depth(&mut self, fn_ok_with_value: bool) -> Option<u64> {
        let depth = self.kinds.len() as u64;
        let max = if self.arity == 0 || fn_ok_with_value { depth } else { depth.checked_sub(1)? };
        Some(self.rng.gen_range(0..=max))
    }
}

fn matching(body: &[J]) -> (Vec<usize>, Vec<usize>) {
    // end index and else index per opener/else (0 = none); 0-based positions, usize::MAX = none
    let n = body.len();
    let mut end = vec![usize::MAX; n];
    let mut els = vec![usize::MAX; n];
    let mut st: Vec<usize> = vec![];
    for (i, ins) in body.iter().enumerate() {
        match ins["o"].as_str().unwrap() {
            "block" | "loop" | "if" | "try" => st.push(i),
            "else" => {
                if let Some(&o) = st.last() {
                    els[o] = i;
                }
            }
            "end" => {
                if let Some(o) = st.pop() {
                    end[o] = i;
                    if els[o] != usize::MAX {
                        end[els[o]] = i;
                    }
                }
            }
            _ => {}
        }
    }
    (end, els)
}

fn target_kinds(body: &[J], i: usize) -> Vec<&'static str> {
    let mut st: Vec<&'static str> = vec![];
    for ins in body.iter().take(i) {
        match ins["o"].as_str().unwrap() {
            "block" => st.push("block"),
            "try" => st.push("try"),
            "loop" => st.push("loop"),
            "if" => st.push("if"),
            "end" => {
                st.pop();
            }
            _ => {}
        }
    }
    let kind = |d: u64| -> &'static str {
        if d as usize >= st.len() {
            "fn"
        } else {
            st[st.len() - 1 - d as usize]
        }
    };
    let c = &body[i];
    match c["o"].as_str().unwrap() {
        "br" | "br_if" | "bron" | "bronn" | "brc" | "brcf" => vec![kind(c["d"].as_u64().unwrap())],
        "br_table" => {
            let mut v: Vec<&'static str> = c["ds"].as_array().unwrap().iter().map(|x| kind(x.as_u64().unwrap())).collect();
            v.push(kind(c["d"].as_u64().unwrap()));
            v
        }
        _ => vec![],
    }
}

fn modes_at(body: &[J], i: usize) -> Vec<&'static str> {
    let o = body[i]["o"].as_str().unwrap();
    if o == "try" {
        return vec![]; // nothing is injected on the try_table itself
    }
    let mut m = vec!["before", "after"];
    if body[i]["t"] == "ref" {
        return m; // the funcref-typed block of the reference-branch item: no special mode yet (DESIGN 10.1)
    }
    if o == "op" || o == "nop" || i + 1 == body.len() {
        m.push("alternate");
        m.push("empty_alternate");
    }
    if ["block", "loop", "if", "else"].contains(&o) {
        m.extend(["block_entry", "block_exit", "block_alt"]);
    }
    if ["block", "loop", "else"].contains(&o) {
        m.push("empty_block_alt");
    }
    if ["block", "if", "else"].contains(&o) {
        m.push("semantic_after");
    }
    if ["br", "br_if", "br_table", "bron"].contains(&o) && !target_kinds(body, i).contains(&"loop") && !target_kinds(body, i).contains(&"try") {
        m.push("semantic_after");
    }
    m
}

pub fn gen_cases(seed: u64, n: usize, max_len: i32, max_depth: usize, start_id: u64) -> Vec<J> {
    let mut out = vec![];
    let mut rng = StdRng::seed_from_u64(seed);
    let mut id = start_id;
    while out.len() < n {
        // result arity 0, 1 or 2 (multi-value)
        let arity = match rng.gen_range(0..8) {
            0 => 1,
            1 => 2,
            _ => 0,
        };
        let mut g = G { rng: StdRng::seed_from_u64(rng.gen()), body: vec![], kinds: vec![], nop: 0, ncond: 0, arity, max_depth, refbr: out.len() * 10 >= n * 9 };
        let mut budget = rng.gen_range(3..=max_len);
        let mut transferred = false;
        // top level: a few sequences
        for _ in 0..3 {
            if g.seq(&mut budget) {
                transferred = true;
                break;
            }
        }
        if !transferred {
            for a in 0..arity {
                g.body.push(json!({"o":"const","v":7 + 10 * a}));
            }
        }
        g.body.push(json!({"o":"end"}));
        let body = g.body;
        if body.len() < 2 {
            continue;
        }
        let (end, _els) = matching(&body);
        // plan
        let k = rng.gen_range(1..=4);
        // theme: 0 mixed, 1 only block-alternates (several disjoint regions), 2 only special modes,
        // 3 only before/after/alternate
        // 6: a semantic-after probe on EVERY branch (several flags resolved at one end)
        // 7: a block-alternate and further injections strictly INSIDE the region it removes (they must go with it)
        let theme = rng.gen_range(0..8);
        let mut plan: Vec<J> = vec![];
        let mut regions: Vec<(usize, usize)> = vec![];
        let mut tries = 0;
        if theme == 7 {
            let openers: Vec<usize> = (0..body.len()).filter(|&i| modes_at(&body, i).contains(&"block_alt")).collect();
            if !openers.is_empty() {
                let i = openers[rng.gen_range(0..openers.len())];
                let o = body[i]["o"].as_str().unwrap();
                let e = if o == "else" { end[i] - 1 } else { end[i] };
                let code = if o == "if" { json!([{"o":"drop"},{"o":"probe","p":0}]) } else { json!([{"o":"probe","p":0}]) };
                let api0 = ["iter", "mod", "comp"][rng.gen_range(0..3)];
                plan.push(json!({"p":0,"site":i,"mode":"block_alt","api":api0,"code":code,"acc":true}));
                for _ in 0..rng.gen_range(1..4) {
                    if e <= i + 1 {
                        break;
                    }
                    let s = rng.gen_range(i + 1..e.max(i + 2).min(body.len()));
                    let ms: Vec<&str> = modes_at(&body, s).into_iter().filter(|m| !m.contains("alt")).collect();
                    if ms.is_empty() {
                        continue;
                    }
                    let mode = ms[rng.gen_range(0..ms.len())];
                    let p = plan.len() as u64;
                    let api1 = ["iter", "mod"][rng.gen_range(0..2)];
                    plan.push(json!({"p":p,"site":s,"mode":mode,"api":api1,"code":[{"o":"probe","p":p}],"acc":true}));
                }
            }
            tries = 80;
        }
        if theme == 6 {
            for i in 0..body.len() {
                let o = body[i]["o"].as_str().unwrap();
                if ["br", "br_if", "br_table", "bron"].contains(&o) && modes_at(&body, i).contains(&"semantic_after") && plan.len() < 5 {
                    let p = plan.len() as u64;
                    let api = ["iter", "mod", "iter_at", "mod_at", "comp", "comp_at", "comp_loc"][rng.gen_range(0..7)];
                    plan.push(json!({"p":p,"site":i,"mode":"semantic_after","api":api,"code":[{"o":"probe","p":p}],"acc":true}));
                }
            }
            tries = 80;
        }
        while plan.len() < k && tries < 80 {
            tries += 1;
            let p = plan.len() as u64;
            if rng.gen_range(0..8) == 0 {
                let mode = if rng.gen_bool(0.5) { "func_entry" } else { "func_exit" };
                let api = if rng.gen_bool(0.5) { "iter" } else { "mod" };
                plan.push(json!({"p":p,"site":-1,"mode":mode,"api":api,"code":[{"o":"probe","p":p}],"acc":true}));
                // sometimes the same modifier goes on with inject_at calls before the function-level mode is finished
                if api == "mod" && rng.gen_range(0..3) == 0 {
                    for _ in 0..rng.gen_range(1..3) {
                        let s = rng.gen_range(0..body.len());
                        if body[s]["o"] == "try" || s + 1 == body.len() {
                            continue;
                        }
                        let m2 = ["before", "after"][rng.gen_range(0..2)];
                        let p2 = plan.len() as u64;
                        plan.push(json!({"p":p2,"site":s,"mode":m2,"api":"mod_at_chained","code":[{"o":"probe","p":p2}],"acc":true}));
                    }
                }
                continue;
            }
            let i = rng.gen_range(0..body.len());
            let mut ms = modes_at(&body, i);
            match theme {
                1 => ms.retain(|m| m.contains("block_alt")),
                2 => ms.retain(|m| ["semantic_after", "block_entry", "block_exit"].contains(m)),
                3 => ms.retain(|m| ["before", "after", "alternate", "empty_alternate"].contains(m)),
                _ => {}
            }
            if ms.is_empty() {
                continue;
            }
            let mode = ms[rng.gen_range(0..ms.len())];
            let o = body[i]["o"].as_str().unwrap();
            // alternates only where the instruction leaves the stack untouched
            let is_alt_region = mode == "block_alt" || mode == "empty_block_alt";
            let reg = if is_alt_region {
                let e = if o == "else" { end[i] - 1 } else { end[i] };
                Some((i, e))
            } else {
                None
            };
            // nothing else at or inside a removed region (the statements are silent there)
            let clash = plan.iter().any(|e| {
                let s = e["site"].as_i64().unwrap();
                if s < 0 {
                    return false;
                }
                let s = s as usize;
                let m = e["mode"].as_str().unwrap();
                // (theme 1: a block-alternate strictly inside another one's region is allowed: the outer removal wins)
                let nested_alt = theme == 1 && m.contains("block_alt") && reg.map(|(a, _)| s > a).unwrap_or(false);
                let inside_new = reg.map(|(a, b)| s >= a && s <= b + 1).unwrap_or(false) && !nested_alt;
                // (a replacement and a removal of one instruction may both be requested: the last request decides)
                inside_new
            }) || regions.iter().any(|(a, b)| i >= *a && i <= *b + 1 && !(theme == 1 && is_alt_region && i > *a));
            if clash {
                continue;
            }
            if let Some(r) = reg {
                regions.push(r);
            }
            let apis: &[&str] = if mode.starts_with("empty") { &["iter", "mod", "comp", "comp_loc"] } else { &["iter", "mod", "iter_at", "mod_at", "comp", "comp_at", "comp_loc"] };
            let api = apis[rng.gen_range(0..apis.len())];
            let code = if mode.starts_with("empty") {
                json!([])
            } else if mode == "block_alt" && o == "if" {
                json!([{"o":"drop"},{"o":"probe","p":p}])
            } else {
                json!([{"o":"probe","p":p}])
            };
            plan.push(json!({"p":p,"site":i,"mode":mode,"api":api,"code":code,"acc":true}));
            // now and then withdraw it again (clear_instr_at); a later entry may inject there once more
            if ["before", "after", "alternate"].contains(&mode) && rng.gen_range(0..10) == 0 {
                let capi = ["iter", "mod", "comp", "comp_loc"][rng.gen_range(0..4)];
                let p2 = plan.len() as u64;
                plan.push(json!({"p":p2,"site":i,"mode":"clear","what":mode,"api":capi,"code":[],"acc":true}));
            }
        }
        if plan.is_empty() {
            continue;
        }
        let pre = match rng.gen_range(0..7) {
            0 => "del_imp",
            1 => "add_imp",
            // a module WITHOUT local functions whose function under test is built and replaces an import
            2 if !body.iter().any(|i| i["o"] == "br_table") => "via_replace",
            _ => "",
        };
        // op7 must be unused when it is deleted
        let uses_op7 = body.iter().any(|i| i["o"] == "op" && i["k"] == 7);
        let pre = if pre == "del_imp" && uses_op7 { "" } else { pre };
        let aux_exit = pre != "via_replace" && rng.gen_range(0..6) == 0;
        out.push(json!({"id":id,"arity":arity,"nlocals":0,"body":body,"plan":plan,"src":"rand","pre":pre,"aux_exit":aux_exit}));
        id += 1;
    }
    out
}

pub fn main(args: &[String]) {
    let mut seed = 1u64;
    let mut n = 1000usize;
    let mut out = String::new();
    let mut max_len = 18;
    let mut max_depth = 3;
    let mut start_id = 1u64;
    let mut i = 0;
    while i < args.len() {
        match args[i].as_str() {
            "--seed" => seed = args[i + 1].parse().unwrap(),
            "--n" => n = args[i + 1].parse().unwrap(),
            "--out" => out = args[i + 1].clone(),
            "--max-len" => max_len = args[i + 1].parse().unwrap(),
            "--max-depth" => max_depth = args[i + 1].parse().unwrap(),
            "--start-id" => start_id = args[i + 1].parse().unwrap(),
            _ => panic!("unknown arg {}", args[i]),
        }
        i += 2;
    }
    let cases = gen_cases(seed, n, max_len, max_depth, start_id);
    let mut o = crate::common::Out::create(&out);
    for c in cases {
        o.ev(c);
    }
    o.flush();
    println!("{{\"generated\":{}}}", o.n);
}
