//! Side-effect report (C23): programs of tagged additions and tagged probes; the records returned by
//! Module::pull_side_effects are rendered to canonical strings for spec/SideTrace.tla.
//!
//! Case: {"id":N,"prog":[{"op":"add_global","tag":"T1"}, {"op":"probe","f":1,"instr":0,"mode":"before","tag":"T2","target":2}, ...],
//!        "how":"pull"|"encode_then_pull"}
use crate::common::*;
use serde_json::{json, Value as J};
use wirm::ir::function::FunctionBuilder;
use wirm::ir::id::{FunctionID, TypeID};
use wirm::ir::module::side_effects::Injection;
use wirm::ir::types::{DataSegment, DataSegmentKind, InitExpr, Tag, Value};
use wirm::iterator::iterator_trait::{IteratingInstrumenter, Iterator as WIterator};
use wirm::iterator::module_iterator::ModuleIterator;
use wirm::module_builder::AddLocal;
use wirm::opcode::{Inject, Instrumenter, Opcode};
use wirm::{DataType, InitInstr, Location, Module};

fn base() -> Vec<u8> {
    wat::parse_str(
        "(module (type (func)) (import \"env\" \"i0\" (func (type 0)))
           (func $f1 (type 0) nop)
           (func $f2 (type 0) (block nop) (if (i32.const 1) (then nop)))
           (memory 1) (global (mut i32) (i32.const 0)) (export \"f1\" (func $f1)) (data \"base\"))",
    )
    .expect("side base")
}

fn ops_str(ops: &[wasmparser::Operator]) -> String {
    let v: Vec<String> = ops.iter().map(|o| format!("{:?}", o)).collect();
    format!("[{}]", v.join(", "))
}
fn tag_str(t: &Tag) -> String {
    String::from_utf8_lossy(t.data()).to_string()
}

fn render(inj: &Injection) -> J {
    match inj {
        Injection::Import { module, name, type_ref, tag } => json!({"kind":"import","tag":tag_str(tag),"content":format!("{}.{} {:?}", module, name, type_ref)}),
        Injection::Export { name, kind, index, tag } => json!({"kind":"export","tag":tag_str(tag),"content":format!("{} {:?} index={}", name, kind, index)}),
        Injection::Type { ty, tag } => json!({"kind":"type","tag":tag_str(tag),"content":format!("params={:?} results={:?}", ty.params(), ty.results())}),
        Injection::Memory { id, initial, maximum, tag } => json!({"kind":"memory","tag":tag_str(tag),"content":format!("id={} initial={} maximum={:?}", id, initial, maximum)}),
        Injection::PassiveData { data, tag } => json!({"kind":"data","tag":tag_str(tag),"content":format!("passive {:?}", data)}),
        Injection::ActiveData { memory_index, offset_expr, data, tag } => json!({"kind":"data","tag":tag_str(tag),"content":format!("active mem={} off={:?} {:?}", memory_index, offset_expr.instructions(), data)}),
        Injection::Global { id, ty, shared, mutable, init_expr, tag } => json!({"kind":"global","tag":tag_str(tag),"content":format!("id={} {:?} shared={} mutable={} init={:?}", id, ty, shared, mutable, init_expr.instructions())}),
        Injection::Func { id, fname, sig, locals, body, tag } => {
            let ops: Vec<wasmparser::Operator> = body.iter().map(|i| i.op.clone()).collect();
            json!({"kind":"func","tag":tag_str(tag),"content":format!("id={} name={:?} sig={:?} locals={:?} body={}", id, fname, sig, locals, ops_str(&ops))})
        }
        Injection::Local { target_fid, ty, tag } => json!({"kind":"local","tag":tag_str(tag),"content":format!("fid={} {:?}", target_fid, ty)}),
        Injection::Table { tag } => json!({"kind":"table","tag":tag_str(tag),"content":""}),
        Injection::Element { tag } => json!({"kind":"element","tag":tag_str(tag),"content":""}),
        Injection::FuncProbe { target_fid, mode, body, tag } => json!({"kind":"fprobe","tag":tag_str(tag),"fid":target_fid,"mode":format!("{:?}", mode),"body":ops_str(body),"bodyv":body.iter().map(|o| format!("{:?}", o)).collect::<Vec<_>>(),
            "content":format!("fid={} mode={:?} body={}", target_fid, mode, ops_str(body))}),
        Injection::FuncLocProbe { target_fid, target_opcode_idx, mode, body, tag } => json!({"kind":"probe","tag":tag_str(tag),"fid":target_fid,"idx":target_opcode_idx,"mode":format!("{:?}", mode),"body":ops_str(body),"bodyv":body.iter().map(|o| format!("{:?}", o)).collect::<Vec<_>>(),
            "content":format!("fid={} idx={} mode={:?} body={}", target_fid, target_opcode_idx, mode, ops_str(body))}),
    }
}

fn run_case(case: &J) -> J {
    let bytes = leak(base());
    let mut ev = json!({"t":"side","id":case["id"],"how":case["how"]});
    let mut module = Module::parse(bytes, false).expect("side base parses");
    let mut trace = vec![];
    let mut n = 0u32;
    for op in case["prog"].as_array().cloned().unwrap_or_default() {
        n += 1;
        let tagb = op["tag"].as_str().unwrap_or("").as_bytes().to_vec();
        let tag = Tag::new(tagb.clone());
        let mut rec = op.clone();
        let r = guarded(|| match op["op"].as_str().unwrap() {
            "add_import_func" => {
                module.add_import_func_with_tag("added".into(), format!("i{}", n), TypeID(0), tag.clone());
            }
            "add_global" => {
                module.add_global_with_tag(InitExpr::new(vec![InitInstr::Value(Value::I32(7))]), DataType::I32, true, false, tag.clone());
            }
            "add_memory" => {
                module.add_local_memory_with_tag(wasmparser::MemoryType { memory64: false, shared: false, initial: 2, maximum: Some(3), page_size_log2: None }, tag.clone());
            }
            "add_import_memory" => {
                module.add_import_memory_with_tag("added".to_string(), format!("m{}", n), wasmparser::MemoryType { memory64: false, shared: false, initial: 1, maximum: None, page_size_log2: None }, tag.clone());
            }
            "add_data_active" => {
                // an active segment for the parsed module's own memory (ID 0 when the call is made)
                module.add_data(DataSegment {
                    kind: DataSegmentKind::Active { memory_index: 0, offset_expr: InitExpr::new(vec![InitInstr::Value(Value::I32(16))]) },
                    data: vec![3],
                    tag: if tagb.is_empty() { None } else { Some(tag.clone()) },
                });
            }
            "add_data" => {
                module.add_data(DataSegment { kind: DataSegmentKind::Passive, data: vec![1, 2], tag: if tagb.is_empty() { None } else { Some(tag.clone()) } });
            }
            "add_export" => {
                module.exports.add_export_func(format!("x{}", n), 2, if tagb.is_empty() { None } else { Some(tag.clone()) });
            }
            "add_type" => {
                module.types.add_func_type(&[DataType::I64], &[], if tagb.is_empty() { None } else { Some(tag.clone()) });
            }
            "add_type_parsed" => {
                // a type equal to one the parsed module already has: nothing is added
                module.types.add_func_type(&[], &[], if tagb.is_empty() { None } else { Some(tag.clone()) });
            }
            "build" => {
                let mut fb = FunctionBuilder::new(&[DataType::I32], &[]);
                fb.add_local(DataType::I64);
                fb.nop();
                fb.finish_module_with_tag(&mut module, tag.clone());
            }
            "probe" => {
                let f = op["f"].as_u64().unwrap() as u32; // local function number 1|2 -> pre-encode ID = f (one import)
                let target = op["target"].as_u64().unwrap() as u32;
                let instr = op["instr"].as_u64().unwrap_or(0) as usize;
                let mode = op["mode"].as_str().unwrap();
                let mut it = ModuleIterator::new(&mut module, &vec![]);
                loop {
                    if let (Location::Module { func_idx, instr_idx }, _) = it.curr_loc() {
                        if *func_idx == f && (instr_idx == instr || mode.starts_with("func_")) {
                            break;
                        }
                    }
                    if it.next().is_none() {
                        panic!("harness: site not reached");
                    }
                }
                match mode {
                    "before" => {
                        it.before();
                    }
                    "after" => {
                        it.after();
                    }
                    "alternate" => {
                        it.alternate();
                    }
                    "block_entry" => {
                        it.block_entry();
                    }
                    "block_exit" => {
                        it.block_exit();
                    }
                    "semantic_after" => {
                        it.semantic_after();
                    }
                    "func_entry" => {
                        it.func_entry();
                    }
                    "func_exit" => {
                        it.func_exit();
                    }
                    x => panic!("mode {}", x),
                }
                // the tag may be given before or after the probe's code
                let tag_first = op["tagfirst"] == true;
                if tag_first && !tagb.is_empty() {
                    it.append_to_tag(tagb.clone());
                }
                it.inject(wasmparser::Operator::Call { function_index: target });
                if !tag_first && !tagb.is_empty() {
                    it.append_to_tag(tagb.clone());
                }
                it.finish_instr();
                drop(it);
                let _ = module.functions.get_fn_modifier(FunctionID(f)); // reset a function-level mode
            }
            x => panic!("harness: op {}", x),
        });
        rec["panic"] = json!(r.is_err());
        if let Err(m) = r {
            rec["msg"] = json!(m);
        }
        trace.push(rec);
    }
    ev["prog"] = json!(trace);
    let how = case["how"].as_str().unwrap_or("pull");
    let r = guarded(|| {
        if how == "encode_then_pull" {
            let _ = module.encode();
        }
        let se = module.pull_side_effects();
        let mut recs: Vec<J> = vec![];
        let mut keys: Vec<_> = se.keys().copied().collect();
        keys.sort();
        for k in keys {
            for inj in se[&k].iter() {
                recs.push(render(inj));
            }
        }
        recs
    });
    match r {
        Ok(recs) => {
            ev["panic"] = json!(false);
            ev["records"] = json!(recs);
        }
        Err(m) => {
            ev["panic"] = json!(true);
            ev["msg"] = json!(m);
            ev["records"] = json!([]);
        }
    }
    // the module encoded after the report was pulled: the calls in its code must be in the index space
    // the records use
    let mut calls: Vec<String> = vec![];
    let mut enc_panic = false;
    match guarded(|| module.encode()) {
        Ok(bytes) => {
            for p in wasmparser::Parser::new(0).parse_all(&bytes).flatten() {
                if let wasmparser::Payload::CodeSectionEntry(b) = p {
                    if let Ok(r) = b.get_operators_reader() {
                        for o in r.into_iter().flatten() {
                            if let wasmparser::Operator::Call { .. } = o {
                                calls.push(format!("{:?}", o));
                            }
                        }
                    }
                }
            }
        }
        Err(_) => enc_panic = true,
    }
    ev["calls_after"] = json!(calls);
    ev["encode_after_panic"] = json!(enc_panic);
    ev
}

pub fn main(args: &[String]) {
    let mut cases_path = String::new();
    let mut out_path = String::new();
    let mut i = 0;
    while i < args.len() {
        match args[i].as_str() {
            "--cases" => cases_path = args[i + 1].clone(),
            "--out" => out_path = args[i + 1].clone(),
            _ => panic!("unknown arg {}", args[i]),
        }
        i += 2;
    }
    let cases = read_lines(&cases_path);
    let mut out = Out::create(&out_path);
    for case in cases.iter() {
        out.ev(run_case(case));
    }
    out.flush();
    println!("{{\"cases\":{}}}", out.n);
}
