//! Opcode helpers (C24): every helper of the injection API is called through a FunctionBuilder and
//! through a ModuleIterator (Before mode) with immediates chosen by the spec; the single emitted
//! instruction is decoded with wasmparser and rendered (Debug) for spec/OpcodeTrace.tla.
//!
//! Case: {"id":N,"helper":"i32_const","path":"builder"|"iter","ins":["-1"]}   (one input string per parameter)
use crate::common::*;
use crate::opcode_gen::{apply, Args, HELPERS};
use serde_json::{json, Value as J};
use wirm::ir::function::FunctionBuilder;
use wirm::ir::module::module_types::{AbstractHeapType, HeapType};
use wirm::ir::types::BlockType;
use wirm::iterator::iterator_trait::IteratingInstrumenter;
use wirm::iterator::module_iterator::ModuleIterator;
use wirm::{DataType, Module};

fn base() -> Vec<u8> {
    let mut w = String::from("(module\n");
    for k in 0..8 {
        w += &format!("  (type (func (param {})))\n", ["i32", "i64", "f32", "f64", "i32 i32", "i64 i64", "f32 f32", "f64 f64"][k]);
    }
    for k in 0..8 {
        w += &format!("  (import \"env\" \"f{}\" (func (type 0)))\n", k);
    }
    for k in 0..8 {
        w += &format!("  (memory {})\n", k + 1);
    }
    for k in 0..8 {
        w += &format!("  (global (mut i32) (i32.const {}))\n", k);
    }
    w += "  (func (export \"f\") nop)\n  (data \"a\") (data \"b\") (data \"c\") (data \"d\") (data \"e\") (data \"f\") (data \"g\") (data \"h\")\n)\n";
    wat::parse_str(&w).expect("opcode base")
}

fn args_from(kinds: &[String], ins: &[String]) -> Args {
    let mut a = Args {
        idx: [0; 3],
        i32v: 0,
        i64v: 0,
        f32b: 0,
        f64b: 0,
        u32v: 0,
        u64v: 0,
        memarg: wasmparser::MemArg { align: 0, max_align: 0, offset: 0, memory: 0 },
        heap: HeapType::Abstract { shared: false, ty: AbstractHeapType::Func },
        bt: BlockType::Empty,
    };
    let mut ni = 0;
    for (k, v) in kinds.iter().zip(ins.iter()) {
        match k.as_str() {
            "idx" => {
                a.idx[ni] = v.parse().unwrap();
                ni += 1;
            }
            "i32" => a.i32v = v.parse().unwrap(),
            "i64" => a.i64v = v.parse().unwrap(),
            "f32" => a.f32b = v.parse().unwrap(),
            "f64" => a.f64b = v.parse().unwrap(),
            "u32" => a.u32v = v.parse().unwrap(),
            "u64" => a.u64v = v.parse().unwrap(),
            "memarg" => {
                let p: Vec<u64> = v.split(',').map(|x| x.parse().unwrap()).collect();
                a.memarg = wasmparser::MemArg { align: p[0] as u8, max_align: p[0] as u8, offset: p[1], memory: p[2] as u32 };
            }
            "heap" => {
                a.heap = match v.as_str() {
                    "func" => HeapType::Abstract { shared: false, ty: AbstractHeapType::Func },
                    "any" => HeapType::Abstract { shared: false, ty: AbstractHeapType::Any },
                    "shared_eq" => HeapType::Abstract { shared: true, ty: AbstractHeapType::Eq },
                    "noextern" => HeapType::Abstract { shared: false, ty: AbstractHeapType::NoExtern },
                    _ => HeapType::Concrete(wasmparser::UnpackedIndex::Module(2)),
                }
            }
            "bt" => {
                a.bt = match v.as_str() {
                    "empty" => BlockType::Empty,
                    "i64" => BlockType::Type(DataType::I64),
                    "I32" => BlockType::Type(DataType::I32),
                    "F32" => BlockType::Type(DataType::F32),
                    "F64" => BlockType::Type(DataType::F64),
                    "V128" => BlockType::Type(DataType::V128),
                    "FuncRef" => BlockType::Type(DataType::FuncRef),
                    "FuncRefNull" => BlockType::Type(DataType::FuncRefNull),
                    "ExternRef" => BlockType::Type(DataType::ExternRef),
                    "ExternRefNull" => BlockType::Type(DataType::ExternRefNull),
                    "Any" => BlockType::Type(DataType::Any),
                    "AnyNull" => BlockType::Type(DataType::AnyNull),
                    "None" => BlockType::Type(DataType::None),
                    "NoneNull" => BlockType::Type(DataType::NoneNull),
                    "NoExtern" => BlockType::Type(DataType::NoExtern),
                    "NoExternNull" => BlockType::Type(DataType::NoExternNull),
                    "NoFunc" => BlockType::Type(DataType::NoFunc),
                    "NoFuncNull" => BlockType::Type(DataType::NoFuncNull),
                    "Eq" => BlockType::Type(DataType::Eq),
                    "EqNull" => BlockType::Type(DataType::EqNull),
                    "Struct" => BlockType::Type(DataType::Struct),
                    "StructNull" => BlockType::Type(DataType::StructNull),
                    "Array" => BlockType::Type(DataType::Array),
                    "ArrayNull" => BlockType::Type(DataType::ArrayNull),
                    "I31" => BlockType::Type(DataType::I31),
                    "I31Null" => BlockType::Type(DataType::I31Null),
                    "Exn" => BlockType::Type(DataType::Exn),
                    "NoExn" => BlockType::Type(DataType::NoExn),
                    "Cont" => BlockType::Type(DataType::Cont),
                    "NoCont" => BlockType::Type(DataType::NoCont),
                    "Module2" => BlockType::Type(DataType::Module { ty_id: 2, nullable: false }),
                    "Module2Null" => BlockType::Type(DataType::Module { ty_id: 2, nullable: true }),
                    _ => BlockType::FuncType(wirm::ir::id::TypeID(2)),
                }
            }
            x => panic!("kind {}", x),
        }
    }
    a
}

/// first operator of the (only / last) local function of the output, Debug-rendered, max_align removed
fn first_op(out: &[u8], which_last: bool, at: usize, extra: usize) -> Result<(String, usize), String> {
    let mut bodies = vec![];
    for p in wasmparser::Parser::new(0).parse_all(out) {
        if let wasmparser::Payload::CodeSectionEntry(b) = p.map_err(|e| e.to_string())? {
            bodies.push(b);
        }
    }
    let b = if which_last { bodies.last() } else { bodies.first() }.ok_or("no body")?;
    let ops: Vec<wasmparser::Operator> = b.get_operators_reader().map_err(|e| e.to_string())?.into_iter().collect::<Result<_, _>>().map_err(|e| e.to_string())?;
    let s = format!("{:?}", ops[at]);
    // drop the derived field `max_align: N, `
    let s = match s.find("max_align: ") {
        Some(p) => {
            let rest = &s[p..];
            let end = rest.find(", ").map(|e| e + 2).unwrap_or(0);
            format!("{}{}", &s[..p], &rest[end..])
        }
        None => s,
    };
    Ok((s, ops.len() - extra))
}

pub fn main(args: &[String]) {
    let mut cases_path = String::new();
    let mut out_path = String::new();
    let mut i = 0;
    while i < args.len() {
        match args[i].as_str() {
            "--cases" => cases_path = args[i + 1].clone(),
            "--out" => out_path = args[i + 1].clone(),
            _ => panic!("unknown arg {}", args[i]),
        }
        i += 2;
    }
    let cases = read_lines(&cases_path);
    let mut out = Out::create(&out_path);
    let base = leak(base());
    // completeness: helpers in the repository's source vs the generated dispatch table
    let src = std::fs::read_to_string("/repo/src/opcode.rs").unwrap_or_default();
    let n_src = src.split("pub trait Opcode").nth(1).map(|s| s.matches("-> &mut Self").count()).unwrap_or(0);
    for case in cases.iter() {
        let helper = case["helper"].as_str().unwrap().to_string();
        let path = case["path"].as_str().unwrap_or("builder").to_string();
        let kinds: Vec<String> = case["kinds"].as_array().unwrap().iter().map(|x| x.as_str().unwrap().to_string()).collect();
        let ins: Vec<String> = case["ins"].as_array().unwrap().iter().map(|x| x.as_str().unwrap().to_string()).collect();
        let mut ev = json!({"t":"opcode","id":case["id"],"helper":helper,"path":path,"ins":ins,"sel":case["sel"]});
        let a = args_from(&kinds, &ins);
        // `else` and `end` need an enclosing construct for the decoder's frame tracking
        let (at, extra) = match helper.as_str() {
            "else_stmt" => (1usize, 2usize), // if, ELSE, end
            "end" => (1, 1),                 // block, END
            _ => (0, 0),
        };
        let r = guarded(|| {
            use wirm::opcode::Opcode as _;
            let mut module = Module::parse(base, true).expect("base parses");
            if path == "builder" {
                let mut fb = FunctionBuilder::new(&[], &[]);
                if helper == "else_stmt" {
                    fb.if_stmt(BlockType::Empty);
                } else if helper == "end" {
                    fb.block(BlockType::Empty);
                }
                if !apply(&mut fb, &helper, &a) {
                    panic!("harness: unknown helper {}", helper);
                }
                if helper == "else_stmt" {
                    fb.end();
                }
                fb.finish_module(&mut module);
                let o = module.encode();
                first_op(&o, true, at, extra)
            } else {
                {
                    let mut it = ModuleIterator::new(&mut module, &vec![]);
                    it.before();
                    if helper == "else_stmt" {
                        it.if_stmt(BlockType::Empty);
                    } else if helper == "end" {
                        it.block(BlockType::Empty);
                    }
                    if !apply(&mut it, &helper, &a) {
                        panic!("harness: unknown helper {}", helper);
                    }
                    if helper == "else_stmt" {
                        it.end();
                    }
                }
                let o = module.encode();
                first_op(&o, false, at, extra)
            }
        });
        match r {
            Ok(Ok((s, n))) => {
                ev["panic"] = json!(false);
                ev["decoded"] = json!(s);
                ev["nops"] = json!(n);
            }
            Ok(Err(e)) => {
                ev["panic"] = json!(false);
                ev["decoded"] = json!(format!("<undecodable: {}>", e));
                ev["nops"] = json!(0);
            }
            Err(m) => {
                ev["panic"] = json!(true);
                ev["decoded"] = json!(m);
                ev["nops"] = json!(0);
            }
        }
        out.ev(ev);
    }
    out.ev(json!({"t":"summary","id":0,"helpers_in_table":HELPERS.len(),"helpers_in_source":n_src}));
    out.flush();
    println!("{{\"cases\":{},\"helpers_in_table\":{},\"helpers_in_source\":{}}}", out.n, HELPERS.len(), n_src);
}
