//! Parsing robustness (C03): Module::parse / Component::parse must return Ok or Err, never panic.
//! (a) TLC-generated payload sequences (spec/ParseRobust.tla) are concretised to binaries out of raw
//!     sections; (b) every such binary and every corpus module is truncated at and around every
//!     section boundary and hit with seeded single-byte substitutions ("near-valid binaries").
//!
//! Case: {"id":N,"parts":[{"p":"name_func","idx":"oob","at":"last"}, ...]}  |  {"kind":"mutate","seed":S,"n":K}
use crate::common::*;
use rand::rngs::StdRng;
use rand::{Rng, SeedableRng};
use serde_json::{json, Value as J};
use wirm::{Component, Module};

fn leb(mut v: u32, out: &mut Vec<u8>) {
    loop {
        let b = (v & 0x7f) as u8;
        v >>= 7;
        if v == 0 {
            out.push(b);
            break;
        }
        out.push(b | 0x80);
    }
}
fn section(id: u8, payload: &[u8], out: &mut Vec<u8>) {
    out.push(id);
    leb(payload.len() as u32, out);
    out.extend_from_slice(payload);
}
fn name(s: &str, out: &mut Vec<u8>) {
    leb(s.len() as u32, out);
    out.extend_from_slice(s.as_bytes());
}
fn custom(nm: &str, data: &[u8], out: &mut Vec<u8>) {
    let mut p = vec![];
    name(nm, &mut p);
    p.extend_from_slice(data);
    section(0, &p, out);
}

fn const_expr(kind: &str) -> Vec<u8> {
    match kind {
        "const" => vec![0x41, 0x00, 0x0b],
        "global_get" => vec![0x23, 0x00, 0x0b],
        "ref_func" => vec![0xd2, 0x00, 0x0b],
        "gc_const" => vec![0xd0, 0x6f, 0xfb, 0x1a, 0x0b], // ref.null extern; any.convert_extern
        "ext_const" => vec![0x41, 0x01, 0x41, 0x02, 0x6a, 0x0b], // i32.const 1; i32.const 2; i32.add
        "nonconst" => vec![0x20, 0x00, 0x0b],              // local.get 0
        "noend" => vec![0x41, 0x00],
        _ => vec![0x41, 0x00, 0x0b],
    }
}

/// Build a module binary from abstract parts (standard section order; name section placement chosen)
pub fn build(parts: &[J]) -> Vec<u8> {
    let get = |p: &str| parts.iter().find(|x| x["p"] == p);
    let mut out = vec![0x00, 0x61, 0x73, 0x6d];
    match get("version").and_then(|x| x["v"].as_str()) {
        Some("component") => out.extend_from_slice(&[0x0d, 0x00, 0x01, 0x00]),
        Some("bogus") => out.extend_from_slice(&[0x07, 0x00, 0x00, 0x00]),
        _ => out.extend_from_slice(&[0x01, 0x00, 0x00, 0x00]),
    }
    // name section content
    let name_section = |parts: &[J]| -> Option<Vec<u8>> {
        let nf = parts.iter().find(|x| x["p"] == "name_func");
        let nl = parts.iter().find(|x| x["p"] == "name_local");
        if nf.is_none() && nl.is_none() {
            return None;
        }
        let mut p = vec![];
        if let Some(nf) = nf {
            let idx: u32 = match nf["idx"].as_str().unwrap_or("local") {
                "import" => 0,
                "local" => 1,
                _ => 77,
            };
            let mut sub = vec![0x01];
            leb(idx, &mut sub);
            name("nm", &mut sub);
            p.push(0x01);
            leb(sub.len() as u32, &mut p);
            p.extend_from_slice(&sub);
        }
        if let Some(nl) = nl {
            // local names of function 1: one local named "x"; truncated variant cuts the inner map
            let mut sub = vec![0x01, 0x01, 0x01, 0x00];
            name("x", &mut sub);
            match nl["v"].as_str().unwrap_or("ok") {
                "truncated" => {
                    sub.truncate(sub.len() - 2);
                    sub[2] = 0x02; // claims two names
                }
                "dup" => {
                    sub = vec![0x01, 0x01, 0x02, 0x00];
                    name("x", &mut sub);
                    sub.push(0x00);
                    name("y", &mut sub);
                }
                _ => {}
            }
            p.push(0x02);
            leb(sub.len() as u32, &mut p);
            p.extend_from_slice(&sub);
        }
        Some(p)
    };
    let name_at = parts
        .iter()
        .find(|x| x["p"] == "name_func" || x["p"] == "name_local")
        .and_then(|x| x["at"].as_str())
        .unwrap_or("last")
        .to_string();
    let ns = name_section(parts);
    if let (Some(ns), "front") = (&ns, name_at.as_str()) {
        custom("name", ns, &mut out);
    }
    // types: 0 = func [] -> [], 1 = struct {}
    section(1, &[0x02, 0x60, 0x00, 0x00, 0x5f, 0x00], &mut out);
    // imports: one function import (type 0) and an immutable i32 global
    section(2, &[0x02, 0x01, b'm', 0x01, b'f', 0x00, 0x00, 0x01, b'm', 0x01, b'g', 0x03, 0x7f, 0x00], &mut out);
    if let (Some(ns), "first") = (&ns, name_at.as_str()) {
        custom("name", ns, &mut out);
    }
    // function section: one local function with the chosen type index
    let fty: u32 = match get("func_type").and_then(|x| x["idx"].as_str()) {
        Some("nonfunc") => 1,
        Some("oob") => 9,
        _ => 0,
    };
    let mut f = vec![0x01];
    leb(fty, &mut f);
    section(3, &f, &mut out);
    section(5, &[0x01, 0x00, 0x01], &mut out); // one memory
    if let Some(t) = get("tag") {
        let ti: u8 = if t["v"] == "badtype" { 9 } else { 0 };
        let mut p = vec![0x01, 0x00, ti];
        if t["v"] == "truncated" {
            p.truncate(2);
        }
        section(13, &p, &mut out);
    }
    if let Some(g) = get("global_init") {
        let mut p = vec![0x01, 0x7f, 0x00];
        if g["kind"] == "ref_func" || g["kind"] == "gc_const" {
            p = vec![0x01, if g["kind"] == "gc_const" { 0x6e } else { 0x70 }, 0x00];
        }
        p.extend_from_slice(&const_expr(g["kind"].as_str().unwrap_or("const")));
        section(6, &p, &mut out);
    }
    let starts: usize = parts.iter().filter(|x| x["p"] == "start").map(|x| if x["twice"] == true { 2 } else { 1 }).sum();
    for _ in 0..starts {
        section(8, &[0x01], &mut out);
    }
    if let Some(dc) = get("data_count") {
        section(12, &[if dc["v"] == "mismatch" { 0x05 } else if get("data_offset").is_some() { 0x01 } else { 0x00 }], &mut out);
    }
    if let (Some(ns), "before_code") = (&ns, name_at.as_str()) {
        custom("name", ns, &mut out);
    }
    // code section: one body `end` with one i32 local; count may be wrong
    match get("code").and_then(|x| x["v"].as_str()) {
        Some("count_mismatch") => section(10, &[0x02, 0x04, 0x01, 0x01, 0x7f, 0x0b, 0x02, 0x00, 0x0b], &mut out),
        Some("missing_end") => section(10, &[0x01, 0x04, 0x01, 0x01, 0x7f, 0x01], &mut out),
        Some("absent") => {}
        _ => section(10, &[0x01, 0x04, 0x01, 0x01, 0x7f, 0x0b], &mut out),
    }
    if let Some(d) = get("data_offset") {
        let mut p = vec![0x01, 0x00];
        p.extend_from_slice(&const_expr(d["kind"].as_str().unwrap_or("const")));
        p.extend_from_slice(&[0x01, b'z']);
        section(11, &p, &mut out);
    }
    if let Some(pr) = get("producers") {
        match pr["v"].as_str().unwrap_or("ok") {
            "empty" => custom("producers", &[0x00], &mut out),
            "malformed" => custom("producers", &[0x02, 0x05, b'a'], &mut out),
            "none" => custom("producers", &[], &mut out),
            _ => {
                let mut p = vec![0x01];
                name("language", &mut p);
                p.push(0x01);
                name("Rust", &mut p);
                name("1.0", &mut p);
                custom("producers", &p, &mut out);
            }
        }
    }
    if get("unknown_section").is_some() {
        section(0x3f, &[0x00], &mut out);
    }
    if let (Some(ns), "last") = (&ns, name_at.as_str()) {
        custom("name", ns, &mut out);
    }
    out
}

pub fn outcome(bytes: &'static [u8]) -> (String, String, String, String) {
    let m = match guarded(|| Module::parse(bytes, true).map(|_| ())) {
        Ok(Ok(())) => ("ok".to_string(), String::new()),
        Ok(Err(e)) => ("err".to_string(), short(&format!("{:?}", e))),
        Err(p) => ("panic".to_string(), p),
    };
    let c = match guarded(|| Component::parse(bytes, true).map(|_| ())) {
        Ok(Ok(())) => ("ok".to_string(), String::new()),
        Ok(Err(e)) => ("err".to_string(), short(&format!("{:?}", e))),
        Err(p) => ("panic".to_string(), p),
    };
    (m.0, m.1, c.0, c.1)
}

fn section_bounds(bytes: &[u8]) -> Vec<usize> {
    // offsets of section starts of the top level (best effort, hand-rolled so that it works on broken input)
    let mut v = vec![];
    let mut i = 8;
    while i < bytes.len() {
        v.push(i);
        i += 1;
        let mut size: usize = 0;
        let mut shift = 0;
        loop {
            if i >= bytes.len() || shift > 28 {
                return v;
            }
            let b = bytes[i];
            i += 1;
            size |= ((b & 0x7f) as usize) << shift;
            shift += 7;
            if b & 0x80 == 0 {
                break;
            }
        }
        i = i.saturating_add(size);
    }
    v.push(bytes.len());
    v
}

fn hex(b: &[u8]) -> String {
    let mut s = String::new();
    for x in b.iter().take(400) {
        s += &format!("{:02x}", x);
    }
    s
}

pub fn main(args: &[String]) {
    let mut cases_path = String::new();
    let mut out_path = String::new();
    let mut seed = 1u64;
    let mut nmut = 64usize;
    let mut i = 0;
    while i < args.len() {
        match args[i].as_str() {
            "--cases" => cases_path = args[i + 1].clone(),
            "--out" => out_path = args[i + 1].clone(),
            "--seed" => seed = args[i + 1].parse().unwrap(),
            "--mutations" => nmut = args[i + 1].parse().unwrap(),
            _ => panic!("unknown arg {}", args[i]),
        }
        i += 2;
    }
    let cases = read_lines(&cases_path);
    let mut out = Out::create(&out_path);
    let mut bases: Vec<(String, Vec<u8>)> = vec![];
    // (a) model-generated payload sequences
    for case in cases.iter() {
        let parts: Vec<J> = case["parts"].as_array().cloned().unwrap_or_default();
        let bytes = build(&parts);
        let (m, mm, c, cm) = outcome(leak(bytes.clone()));
        out.ev(json!({"t":"parse","id":case["id"],"kind":"model","parts":parts,"valid":validate(&bytes).is_ok(),
            "module":m,"module_msg":mm,"component":c,"component_msg":cm,"hex":hex(&bytes)}));
        bases.push((format!("model#{}", case["id"]), bytes));
    }
    // (a') components with a zero-item section (valid; the text format never produces one) in front of, between
    // and behind other sections, at the top level and nested
    {
        let core = wat::parse_str("(module (func (export \"f\")))").expect("tiny core module");
        let header: [u8; 8] = [0x00, 0x61, 0x73, 0x6d, 0x0d, 0x00, 0x01, 0x00];
        let mut core_sec = vec![0x01u8];
        leb(core.len() as u32, &mut core_sec);
        core_sec.extend_from_slice(&core);
        let mut k = 0u64;
        for empty_id in [2u8, 3, 6, 7, 8, 10, 11] {
            let empty = [empty_id, 0x01, 0x00];
            for layout in 0..4 {
                let mut inner = header.to_vec();
                match layout {
                    0 => {
                        inner.extend_from_slice(&empty);
                        inner.extend_from_slice(&core_sec);
                    }
                    1 => {
                        inner.extend_from_slice(&core_sec);
                        inner.extend_from_slice(&empty);
                        inner.extend_from_slice(&core_sec);
                    }
                    2 => {
                        inner.extend_from_slice(&empty);
                        inner.extend_from_slice(&empty);
                        inner.extend_from_slice(&core_sec);
                    }
                    _ => {
                        // nested: the layout-0 component as a nested component section, followed by a core module
                        let mut n0 = header.to_vec();
                        n0.extend_from_slice(&empty);
                        n0.extend_from_slice(&core_sec);
                        inner.push(0x04);
                        leb(n0.len() as u32, &mut inner);
                        inner.extend_from_slice(&n0);
                        inner.extend_from_slice(&core_sec);
                    }
                }
                k += 1;
                let (m, mm, c, cm) = outcome(leak(inner.clone()));
                out.ev(json!({"t":"parse","id":900_000 + k,"kind":"comp_model","parts":[{"p":"comp_empty_section","id":empty_id,"layout":layout}],
                    "valid":validate(&inner).is_ok(),"module":m,"module_msg":mm,"component":c,"component_msg":cm,"hex":hex(&inner)}));
                bases.push((format!("comp_empty#{}", k), inner));
            }
        }
    }
    // (b) near-valid binaries: truncations and byte substitutions of model binaries and of the corpus
    for (label, bytes, _) in crate::rtfam::corpus() {
        if bytes.len() < 20_000 {
            bases.push((label, bytes));
        }
    }
    let mut rng = StdRng::seed_from_u64(seed);
    let mut tried: u64 = 0;
    let mut panics: std::collections::HashMap<String, (u64, String, String)> = std::collections::HashMap::new();
    let mut note = |which: &str, msg: &str, label: &str, data: &[u8], panics: &mut std::collections::HashMap<String, (u64, String, String)>| {
        // one record per panic site (file:line)
        let site = msg.split(": ").next().unwrap_or(msg).to_string();
        let e = panics.entry(format!("{}|{}", which, site)).or_insert((0, format!("{} [{}]", msg, label), hex(data)));
        e.0 += 1;
    };
    for (label, base) in bases.iter() {
        let mut variants: Vec<Vec<u8>> = vec![];
        for b in section_bounds(base) {
            for d in [-1i64, 0, 1] {
                let cut = (b as i64 + d).clamp(0, base.len() as i64) as usize;
                variants.push(base[..cut].to_vec());
            }
        }
        for _ in 0..nmut {
            let mut v = base.clone();
            if v.len() > 8 {
                let pos = rng.gen_range(8..v.len());
                v[pos] = match rng.gen_range(0..4) {
                    0 => rng.gen(),
                    1 => v[pos].wrapping_add(1),
                    2 => 0x7f,
                    _ => v[pos] ^ (1 << rng.gen_range(0..8)),
                };
                variants.push(v);
            }
        }
        for v in variants {
            tried += 1;
            let lb = leak(v);
            let (m, mm, c, cm) = outcome(lb);
            if m == "panic" {
                note("module", &mm, label, lb, &mut panics);
            }
            if c == "panic" {
                note("component", &cm, label, lb, &mut panics);
            }
        }
    }
    let mut id = 1_000_000u64;
    for (k, (n, msg, hx)) in panics.iter() {
        id += 1;
        let which = k.split('|').next().unwrap_or("module");
        out.ev(json!({"t":"parse","id":id,"kind":"mutated","parts":[],"valid":false,
            "module": if which == "module" {"panic"} else {"err"}, "module_msg": if which == "module" {msg.clone()} else {String::new()},
            "component": if which == "component" {"panic"} else {"err"}, "component_msg": if which == "component" {msg.clone()} else {String::new()},
            "hex":hx,"count":n}));
    }
    out.ev(json!({"t":"summary","id":0,"kind":"summary","mutants_tried":tried,"bases":bases.len(),"panic_sites":panics.len()}));
    out.flush();
    println!("{{\"cases\":{},\"mutants\":{},\"panic_sites\":{}}}", out.n, tried, panics.len());
}
