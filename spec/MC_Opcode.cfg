SPECIFICATION Spec
INVARIANTS TableOk EmitCase
CHECK_DEADLOCK FALSE
