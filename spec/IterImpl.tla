------------------------------ MODULE IterImpl ------------------------------
(***************************************************************************)
(* Impl-shaped transcription of wirm's sub-iterators                       *)
(* (src/subiterator/function_subiterator.rs, module_subiterator.rs): the   *)
(* state is what the Rust structs hold, one operator per method.  Two      *)
(* versions: Now (the code as repaired by fix 7d9b8b5) and Old (the pinned *)
(* tree).  A module is md = [nimp, funcs] as in IterIdeal; the metadata    *)
(* vector is <<(FunctionID, number of instructions)>> for local functions. *)
(* An out-of-range index access of the Rust code is the outcome "panic".   *)
(***************************************************************************)
EXTENDS IterIdeal

\* get_func_metadata: the local functions in function-ID order (a replaced import keeps its ID 0)
Meta(md) == (IF Repl(md) > 0 THEN <<[fid |-> 0, n |-> Repl(md)]>> ELSE <<>>)
            \o [j \in DOMAIN md.funcs |-> [fid |-> md.nimp + j - 1, n |-> md.funcs[j]]]

\* ---- FuncSubIterator ------------------------------------------------------------------------------
F_New(n)      == [ci |-> 0, n |-> n]
F_HasNext(f)  == f.ci + 1 < f.n
F_IsEnd(f, pc) == pc + 1 >= f.n
F_Next(f)     == IF F_HasNext(f) THEN [f EXCEPT !.ci = @ + 1] ELSE f

\* ---- ModuleSubIterator, current code ----------------------------------------------------------------
\* state: [idx (0-based curr_idx), f (FuncSubIterator)], metadata mt, skip set sk
HasCurr(mt, s)  == s.idx < Len(mt)
CurrN(mt, s)    == IF HasCurr(mt, s) THEN mt[s.idx + 1].n ELSE 0
RECURSIVE SkipFrom(_, _, _)
SkipFrom(mt, sk, i) == IF i < Len(mt) /\ mt[i + 1].fid \in sk THEN SkipFrom(mt, sk, i + 1) ELSE i
M_New(mt, sk) == LET i == SkipFrom(mt, sk, 0) IN
                 [idx |-> i, f |-> F_New(IF i < Len(mt) THEN mt[i + 1].n ELSE 0)]
M_Reset(mt, sk, s) == M_New(mt, sk)        \* curr_idx := 0; handle_skips; func_iterator.reset(curr_num_instrs)
M_HasNextFunction(mt, sk, s) == \E j \in (s.idx + 2) .. Len(mt) : mt[j].fid \notin sk
M_NextFunction(mt, sk, s) ==
    IF ~M_HasNextFunction(mt, sk, s) THEN [ok |-> FALSE, s |-> s]
    ELSE LET i == SkipFrom(mt, sk, s.idx + 1) IN
         IF i < Len(mt) THEN [ok |-> TRUE, s |-> [idx |-> i, f |-> F_New(mt[i + 1].n)]]
         ELSE [ok |-> FALSE, s |-> [s EXCEPT !.idx = i]]
M_Next(mt, sk, s) == IF F_HasNext(s.f) THEN [ok |-> TRUE, s |-> [s EXCEPT !.f = F_Next(@)]]
                     ELSE M_NextFunction(mt, sk, s)
\* curr_loc indexes the metadata: it panics when there is no current function
M_Loc(mt, s) == IF HasCurr(mt, s)
                THEN [fid |-> mt[s.idx + 1].fid, idx |-> s.f.ci, end |-> F_IsEnd(s.f, s.f.ci)]
                ELSE [fid |-> -1, idx |-> -1, end |-> TRUE]      \* "panic"

\* the walk: locations seen by new(); loop { curr_loc(); if !next() break }
RECURSIVE WalkR(_, _, _, _)
WalkR(mt, sk, s, fuel) ==
    IF fuel = 0 \/ ~HasCurr(mt, s) THEN <<>>
    ELSE LET r == M_Next(mt, sk, s) IN
         <<M_Loc(mt, s)>> \o (IF r.ok THEN WalkR(mt, sk, r.s, fuel - 1) ELSE <<>>)
WalkNow(md, sk) == WalkR(Meta(md), sk, M_New(Meta(md), sk), 64)

\* ---- ModuleSubIterator as it was on the pinned tree ----------------------------------------------------
\* new: metadata[0] (panics when empty), handle_skips indexes metadata[curr_idx] first (panics when empty),
\* handle_skips stops at len but leaves func_iterator sized for function 0; has_next_function ignores skips
O_SkipFrom(mt, sk, i) == SkipFrom(mt, sk, i)
O_New(mt, sk) ==
    IF Len(mt) = 0 THEN [panic |-> TRUE]
    ELSE LET i == O_SkipFrom(mt, sk, 0) IN [panic |-> FALSE, idx |-> i, f |-> F_New(mt[1].n)]
O_HasNextFunction(mt, s) == s.idx + 1 < Len(mt)
O_NextFunction(mt, sk, s) ==
    IF ~O_HasNextFunction(mt, s) THEN [ok |-> FALSE, s |-> s]
    ELSE LET i == O_SkipFrom(mt, sk, s.idx + 1) IN
         IF i < Len(mt) THEN [ok |-> TRUE, s |-> [s EXCEPT !.idx = i, !.f = F_New(mt[i + 1].n)]]
         ELSE [ok |-> FALSE, s |-> [s EXCEPT !.idx = i]]
O_Next(mt, sk, s) == IF F_HasNext(s.f) THEN [ok |-> TRUE, s |-> [s EXCEPT !.f = F_Next(@)]]
                     ELSE O_NextFunction(mt, sk, s)
RECURSIVE O_WalkR(_, _, _, _)
O_WalkR(mt, sk, s, fuel) ==
    IF fuel = 0 THEN <<>>
    ELSE IF s.idx >= Len(mt) THEN <<[fid |-> -1, idx |-> -1, end |-> TRUE]>>      \* curr_loc panics
    ELSE LET r == O_Next(mt, sk, s) IN
         <<[fid |-> mt[s.idx + 1].fid, idx |-> s.f.ci, end |-> F_IsEnd(s.f, s.f.ci)]>>
         \o (IF r.ok THEN O_WalkR(mt, sk, r.s, fuel - 1) ELSE <<>>)
WalkOld(md, sk) == LET s == O_New(Meta(md), sk) IN
                   IF s.panic THEN <<[fid |-> -1, idx |-> -1, end |-> TRUE]>> ELSE O_WalkR(Meta(md), sk, s, 64)

\* ---- ComponentSubIterator (component_subiterator.rs) --------------------------------------------------------
\* mods: sequence of module shapes; sks: sequence of skip sets; state [cm (0-based curr_mod), s (module sub-iterator)]
ModHas(mods, sks, c) == c.cm < Len(mods) /\ HasCurr(Meta(mods[c.cm + 1]), c.s)
RECURSIVE C_NextModule(_, _, _, _)
C_NextModule(mods, sks, c, fuel) ==       \* current code: loop to the next module that has something to visit
    LET m == c.cm + 1 IN
    IF m >= Len(mods) \/ fuel = 0 THEN [ok |-> FALSE, c |-> [c EXCEPT !.cm = m]]
    ELSE LET s == M_New(Meta(mods[m + 1]), sks[m + 1])
             c1 == [cm |-> m, s |-> s]
         IN IF HasCurr(Meta(mods[m + 1]), s) THEN [ok |-> TRUE, c |-> c1] ELSE C_NextModule(mods, sks, c1, fuel - 1)
C_New(mods, sks) ==
    IF Len(mods) = 0 THEN [cm |-> 0, s |-> M_New(<<>>, {})]
    ELSE LET c0 == [cm |-> 0, s |-> M_New(Meta(mods[1]), sks[1])] IN
         IF HasCurr(Meta(mods[1]), c0.s) THEN c0 ELSE C_NextModule(mods, sks, c0, 16).c
C_Next(mods, sks, c) ==
    LET mt == Meta(mods[c.cm + 1]) sk == sks[c.cm + 1] IN
    IF F_HasNext(c.s.f) \/ M_HasNextFunction(mt, sk, c.s)
    THEN LET r == M_Next(mt, sk, c.s) IN [ok |-> r.ok, c |-> [c EXCEPT !.s = r.s]]
    ELSE C_NextModule(mods, sks, c, 16)
RECURSIVE C_WalkR(_, _, _, _)
C_WalkR(mods, sks, c, fuel) ==
    IF fuel = 0 \/ ~ModHas(mods, sks, c) THEN <<>>
    ELSE LET r == C_Next(mods, sks, c)
             l == M_Loc(Meta(mods[c.cm + 1]), c.s) IN
         <<[mod |-> c.cm, fid |-> l.fid, idx |-> l.idx, end |-> l.end]>>
         \o (IF r.ok THEN C_WalkR(mods, sks, r.c, fuel - 1) ELSE <<>>)
CompWalkNow(mods, sks) == C_WalkR(mods, sks, C_New(mods, sks), 64)

\* the pinned tree: next_module takes the NEXT module whatever it holds (empty, or all functions skipped), over the
\* former module sub-iterator; its has_next believed a skipped trailing function was still to come, so next() entered
\* next_function, found nothing and returned false: the walk stopped and later modules were never reached (S30)
O_CNext(mods, sks, c) ==
    LET mt == Meta(mods[c.cm + 1]) sk == sks[c.cm + 1] IN
    IF F_HasNext(c.s.f) \/ O_HasNextFunction(mt, c.s)
    THEN LET r == O_Next(mt, sk, c.s) IN [ok |-> r.ok, c |-> [c EXCEPT !.s = r.s]]
    ELSE LET m == c.cm + 1 IN
         IF m >= Len(mods) THEN [ok |-> FALSE, c |-> [c EXCEPT !.cm = m]]
         ELSE LET s == O_New(Meta(mods[m + 1]), sks[m + 1]) IN
              IF s.panic THEN [ok |-> FALSE, c |-> [cm |-> m, s |-> c.s, panic |-> TRUE]]
              ELSE [ok |-> TRUE, c |-> [cm |-> m, s |-> s]]
RECURSIVE O_CWalkR(_, _, _, _)
O_CWalkR(mods, sks, c, fuel) ==
    IF fuel = 0 THEN <<>>
    ELSE LET mt == Meta(mods[c.cm + 1]) IN
         IF c.s.idx >= Len(mt) THEN <<[mod |-> c.cm, fid |-> -1, idx |-> -1, end |-> TRUE]>>
         ELSE LET r == O_CNext(mods, sks, c) IN
              <<[mod |-> c.cm, fid |-> mt[c.s.idx + 1].fid, idx |-> c.s.f.ci, end |-> F_IsEnd(c.s.f, c.s.f.ci)]>>
              \o (IF r.ok THEN O_CWalkR(mods, sks, r.c, fuel - 1) ELSE <<>>)
CompWalkOld(mods, sks) ==
    LET s == O_New(Meta(mods[1]), sks[1]) IN
    IF s.panic THEN <<[mod |-> 0, fid |-> -1, idx |-> -1, end |-> TRUE]>> ELSE O_CWalkR(mods, sks, [cm |-> 0, s |-> s], 64)

IdealCompWalk(mods, sks) ==
    LET v == Visit(mods, [m \in DOMAIN mods |-> IF sks[m] = {} THEN <<>> ELSE
                             LET q == CHOOSE q \in [1 .. Cardinality(sks[m]) -> sks[m]] : {q[i] : i \in DOMAIN q} = sks[m] IN q])
    IN [i \in DOMAIN v |-> [mod |-> v[i].mod, fid |-> v[i].fid, idx |-> v[i].idx, end |-> v[i].end]]

\* S30: the first module's trailing function is skipped: the former iterator never reaches the second module
ASSUME LET mods == << [nimp |-> 0, funcs |-> <<1, 1>>], [nimp |-> 0, funcs |-> <<1>>] >> sks == << {1}, {} >> IN
       CompWalkOld(mods, sks) # IdealCompWalk(mods, sks) /\ CompWalkNow(mods, sks) = IdealCompWalk(mods, sks)

\* ---- the Ideal, projected to what the sub-iterator reports ------------------------------------------------
IdealWalk(md, sk) == LET v == ModVisit(0, md, sk) IN [i \in DOMAIN v |-> [fid |-> v[i].fid, idx |-> v[i].idx, end |-> v[i].end]]

\* ---- documented witnesses of the former behaviour --------------------------------------------------------
\* S27: a module without local functions: construction panics
ASSUME WalkOld([nimp |-> 1, funcs |-> <<>>], {}) # IdealWalk([nimp |-> 1, funcs |-> <<>>], {})
       /\ WalkNow([nimp |-> 1, funcs |-> <<>>], {}) = <<>>
\* S28: the first function skipped: the function iterator keeps the size of function 0
ASSUME LET md == [nimp |-> 0, funcs |-> <<1, 3>>] IN
       WalkOld(md, {0}) # IdealWalk(md, {0}) /\ WalkNow(md, {0}) = IdealWalk(md, {0})
\* S29: every function skipped: the iterator is constructed pointing past the end and curr_loc panics
ASSUME LET md == [nimp |-> 0, funcs |-> <<2>>] IN
       WalkOld(md, {0}) # IdealWalk(md, {0}) /\ WalkNow(md, {0}) = <<>> /\ IdealWalk(md, {0}) = <<>>
\* (S30, a skipped LAST function, went wrong one level up, in the component sub-iterator: at this level the
\*  former code already agreed with the Ideal)
ASSUME LET md == [nimp |-> 0, funcs |-> <<2, 2>>] IN WalkOld(md, {1}) = IdealWalk(md, {1})
=============================================================================
