SPECIFICATION Spec
CONSTANTS MaxFuncs = 3
 MaxInstr = 3
INVARIANTS Refines ResetOk
CHECK_DEADLOCK FALSE
