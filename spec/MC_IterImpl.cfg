SPECIFICATION Spec
CONSTANTS MaxFuncs = 3
 MaxInstr = 3
INVARIANTS Refines ResetOk CompRefines
CHECK_DEADLOCK FALSE
