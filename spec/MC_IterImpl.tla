---------------------------- MODULE MC_IterImpl ----------------------------
(* Impl-shaped sub-iterators (IterImpl.tla) refine the Ideal visiting order on every module shape and skip set *)
EXTENDS IterImpl
CONSTANTS MaxFuncs, MaxInstr
VARIABLES md, sk, md2, sk2
vars == <<md, sk, md2, sk2>>
Seqs(S, n) == UNION {[1 .. k -> S] : k \in 0 .. n}
Init == /\ md \in {[nimp |-> ni, funcs |-> f, repl |-> r] : ni \in {0, 2}, f \in Seqs(1 .. MaxInstr, MaxFuncs), r \in {0, 2}}
        /\ (md.repl > 0 => md.nimp > 0)
        /\ sk \in SUBSET (0 .. (md.nimp + Len(md.funcs) + 1))
        \* a second, smaller module behind it for the component-level walk
        /\ md2 \in {[nimp |-> 0, funcs |-> f, repl |-> 0] : f \in Seqs(1 .. 2, 2)}
        /\ sk2 \in SUBSET (0 .. Len(md2.funcs))
Next == UNCHANGED vars
Spec == Init /\ [][Next]_vars
Refines == WalkNow(md, sk) = IdealWalk(md, sk)
\* the component sub-iterator over <<md, md2>> and over <<md2, md>> refines the Ideal too
CompRefines == /\ CompWalkNow(<<md, md2>>, <<sk, sk2>>) = IdealCompWalk(<<md, md2>>, <<sk, sk2>>)
               /\ CompWalkNow(<<md2, md>>, <<sk2, sk>>) = IdealCompWalk(<<md2, md>>, <<sk2, sk>>)
\* reset brings the iterator back to the state after construction, wherever it is
ResetOk == LET mt == Meta(md) s0 == M_New(mt, sk) IN
           \A k \in 0 .. 6 :
              LET RECURSIVE Adv(_, _)
                  Adv(s, n) == IF n = 0 THEN s ELSE Adv(M_Next(mt, sk, s).s, n - 1)
              IN M_Reset(mt, sk, Adv(s0, k)) = s0
=============================================================================
