---------------------------- MODULE MC_IterImpl ----------------------------
(* Impl-shaped sub-iterators (IterImpl.tla) refine the Ideal visiting order on every module shape and skip set *)
EXTENDS IterImpl
CONSTANTS MaxFuncs, MaxInstr
VARIABLES md, sk
vars == <<md, sk>>
Seqs(S, n) == UNION {[1 .. k -> S] : k \in 0 .. n}
Init == /\ md \in {[nimp |-> ni, funcs |-> f] : ni \in {0, 2}, f \in Seqs(1 .. MaxInstr, MaxFuncs)}
        /\ sk \in SUBSET (0 .. (md.nimp + Len(md.funcs) + 1))
Next == UNCHANGED vars
Spec == Init /\ [][Next]_vars
Refines == WalkNow(md, sk) = IdealWalk(md, sk)
\* reset brings the iterator back to the state after construction, wherever it is
ResetOk == LET mt == Meta(md) s0 == M_New(mt, sk) IN
           \A k \in 0 .. 6 :
              LET RECURSIVE Adv(_, _)
                  Adv(s, n) == IF n = 0 THEN s ELSE Adv(M_Next(mt, sk, s).s, n - 1)
              IN M_Reset(mt, sk, Adv(s0, k)) = s0
=============================================================================
