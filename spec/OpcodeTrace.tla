------------------------------ MODULE OpcodeTrace ------------------------------
(* validates the decoded instruction of every real helper call against OpcodeIdeal!Expected *)
EXTENDS OpcodeIdeal, Json, IOUtils
Cases == ndJsonDeserialize(IOEnv.TRACE)
VARIABLES cid, judged
vars == <<cid, judged>>
C == Cases[cid]
Chk(c, ok, d) == IF ok THEN TRUE ELSE PrintT(<<"VERDICT", ToJson([tr |-> C.id, c |-> c, d |-> d])>>)
Init == cid \in 1 .. Len(Cases) /\ judged = FALSE
Judge ==
    /\ ~judged /\ judged' = TRUE /\ UNCHANGED cid
    /\ IF C.t = "summary"
       THEN Chk("helper_table_incomplete", C.helpers_in_table = C.helpers_in_source /\ C.helpers_in_table = Len(Helpers),
                [table |-> C.helpers_in_table, source |-> C.helpers_in_source])
       ELSE LET row == RowOf(C.helper)
                want == Expected(row, C.sel)
                n == IF C.path = "builder" THEN 2 ELSE 3      \* [op, end] / [op, nop, end]
            IN /\ Chk("helper_panicked", ~C.panic, [helper |-> C.helper, path |-> C.path, msg |-> C.decoded])
               /\ C.panic \/
                  /\ Chk("wrong_instruction", C.decoded = want, [helper |-> C.helper, path |-> C.path, want |-> want, got |-> C.decoded])
                  /\ Chk("wrong_count", C.nops = n, [helper |-> C.helper, path |-> C.path, want |-> n, got |-> C.nops])
Spec == Init /\ [][Judge]_vars
=============================================================================
