SPECIFICATION Spec
INVARIANT PosOk
CHECK_DEADLOCK FALSE
