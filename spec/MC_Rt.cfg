SPECIFICATION Spec
INVARIANTS ImplRefinesIdeal EmitCase
CHECK_DEADLOCK FALSE
