------------------------------- MODULE Exec -------------------------------
(***************************************************************************)
(* Small-step semantics of the instruction alphabet used by the lowering   *)
(* family (DESIGN.md 4.3, App. B.1).  TLC is the execution engine: there is *)
(* no WebAssembly engine in the sandbox.                                    *)
(*                                                                         *)
(* Alphabet (records with field o):                                        *)
(*   op(k)       call of an opaque effect  [] -> []   (op 0 may trap)      *)
(*   cond(k)     call of a decision        [] -> [i32], value drawn        *)
(*   probe(p)    call of a reporting probe [] -> []                        *)
(*   block(r) loop(r) if(r) else end  br(d) br_if(d) br_table(ds,d)        *)
(*   return unreachable nop const(v) drop lget(x) lset(x)                  *)
(*   rnull rfunc bron(d) [bound]; bronn(d) brc(d) brcf(d) [model only]     *)
(* A machine is a record; one call of XStep = one executed instruction.    *)
(***************************************************************************)
EXTENDS Naturals, Integers, Sequences, FiniteSets, TLC

\* "try" is a try_table without catch clauses: control-wise a block (the library must not mistake its end for
\* another construct's; nothing is injected on it)
Openers == {"block", "loop", "if", "try"}

RECURSIVE FindEnd(_, _, _)
FindEnd(code, j, d) ==
    IF j > Len(code) THEN 0
    ELSE LET o == code[j].o IN
         IF o \in Openers THEN FindEnd(code, j + 1, d + 1)
         ELSE IF o = "end" THEN (IF d = 1 THEN j ELSE FindEnd(code, j + 1, d - 1))
         ELSE FindEnd(code, j + 1, d)

RECURSIVE FindElse(_, _, _)
FindElse(code, j, d) ==
    IF j > Len(code) THEN 0
    ELSE LET o == code[j].o IN
         IF o \in Openers THEN FindElse(code, j + 1, d + 1)
         ELSE IF o = "end" THEN (IF d = 1 THEN 0 ELSE FindElse(code, j + 1, d - 1))
         ELSE IF o = "else" /\ d = 1 THEN j
         ELSE FindElse(code, j + 1, d)

\* jump table: for an opener its matching end (and else); for an else its end
JT(code) ==
    [i \in 1 .. Len(code) |->
        IF code[i].o \in Openers
        THEN [end |-> FindEnd(code, i + 1, 1),
              els |-> IF code[i].o = "if" THEN FindElse(code, i + 1, 1) ELSE 0]
        ELSE IF code[i].o = "else"
        THEN [end |-> FindEnd(code, i + 1, 1), els |-> i]
        ELSE [end |-> 0, els |-> 0]]

\* well-nestedness: every opener has an end, the code ends with the function's end
RECURSIVE DepthOk(_, _, _)
DepthOk(code, j, d) ==
    IF j > Len(code) THEN d = 0
    ELSE LET o == code[j].o IN
         IF o \in Openers THEN DepthOk(code, j + 1, d + 1)
         ELSE IF o = "end" THEN d >= 1 /\ DepthOk(code, j + 1, d - 1)
         ELSE d >= 1 /\ DepthOk(code, j + 1, d)
WellNested(code) == Len(code) >= 1 /\ DepthOk(code, 1, 1)

\* kinds of the constructs open just before instruction i (outermost first), and the kind
\* of label a branch at i with relative depth d designates ("fn" = the function label)
RECURSIVE OpenKinds(_, _, _, _)
OpenKinds(code, j, i, acc) ==
    IF j >= i THEN acc
    ELSE LET o == code[j].o IN
         IF o \in Openers THEN OpenKinds(code, j + 1, i, Append(acc, o))
         ELSE IF o = "end" THEN OpenKinds(code, j + 1, i, SubSeq(acc, 1, Len(acc) - 1))
         ELSE OpenKinds(code, j + 1, i, acc)
TargetKind(code, i, d) ==
    LET st == OpenKinds(code, 1, i, <<>>) IN IF d >= Len(st) THEN "fn" ELSE st[Len(st) - d]
TargetKinds(code, i) ==
    LET c == code[i] IN
    IF c.o = "br_table" THEN {TargetKind(code, i, c.ds[x]) : x \in DOMAIN c.ds} \cup {TargetKind(code, i, c.d)}
    ELSE IF c.o \in {"br", "br_if", "bron", "bronn", "brc", "brcf"} THEN {TargetKind(code, i, c.d)}
    ELSE {}

---------------------------------------------------------------------------
NConds == 8
Fuel   == 2            \* loop back-edges allowed per run

NewMachine ==
    [pc |-> 1, vs |-> <<>>, ls |-> <<>>, loc |-> <<>>, ev |-> <<>>, st |-> "run",
     occ |-> [k \in 0 .. NConds - 1 |-> 0], oct |-> 0, fuel |-> Fuel, init |-> TRUE]

Top(s)  == s[Len(s)]
Pop(s)  == SubSeq(s, 1, Len(s) - 1)
LocOf(m, x) == IF x \in DOMAIN m.loc THEN m.loc[x] ELSE 0
Emit(m, e) == [m EXCEPT !.ev = Append(@, e)]
Stuck(m)   == [m EXCEPT !.st = "stuck"]

\* the returned value(s) as one number: the top value, for two results also the one below it
RetVal(m, ar) == IF ar = 0 \/ Len(m.vs) < ar THEN -1
                 ELSE IF ar = 1 THEN Top(m.vs)
                 ELSE Top(m.vs) * 1000 + m.vs[Len(m.vs) - 1]
Return(m, ar) == [Emit(m, [e |-> "ret", v |-> RetVal(m, ar)]) EXCEPT !.st = "ret"]
Trap(m)       == [Emit(m, [e |-> "trap"]) EXCEPT !.st = "trap"]

\* label: kind, cont (pc after a branch to it), h (stack height at entry), r (arity),
\*        opn (index of the opener), end (index of its end)
Label(kind, cont, h, r, opn, end) ==
    [kind |-> kind, cont |-> cont, h |-> h, r |-> r, opn |-> opn, end |-> end]

\* branch to relative depth d; d >= number of labels = the function label
Branch(m, d, ar) ==
    IF d >= Len(m.ls) THEN Return(m, ar)
    ELSE LET idx  == Len(m.ls) - d
             L    == m.ls[idx]
             keep == IF L.kind = "loop" THEN 0 ELSE L.r
         IN IF Len(m.vs) < L.h + keep THEN Stuck(m)
            ELSE LET nvs == SubSeq(m.vs, 1, L.h) \o SubSeq(m.vs, Len(m.vs) - keep + 1, Len(m.vs))
                 IN IF L.kind = "loop"
                    THEN IF m.fuel = 0 THEN [m EXCEPT !.st = "fuel"]
                         ELSE [m EXCEPT !.ls = SubSeq(@, 1, idx), !.vs = nvs, !.pc = L.cont, !.fuel = @ - 1]
                    ELSE [m EXCEPT !.ls = SubSeq(@, 1, idx - 1), !.vs = nvs, !.pc = L.cont]

BrTableDepth(c, v) == IF v >= 0 /\ v < Len(c.ds) THEN c.ds[v + 1] ELSE c.d

\* does the instruction at pc need a decision / trap draw?
NeedsCond(code, m) == m.st = "run" /\ m.pc <= Len(code) /\ code[m.pc].o = "cond"
NeedsTrap(code, m) == m.st = "run" /\ m.pc <= Len(code) /\ code[m.pc].o = "op" /\ code[m.pc].k = 0

\* one step of plain code; v = the draw for cond (value) or op 0 (1 = trap), else ignored
XStep(m, code, jt, ar, v) ==
    IF m.pc > Len(code) THEN Stuck(m)
    ELSE
    LET c  == code[m.pc]
        o  == c.o
        nx == [m EXCEPT !.pc = @ + 1]
    IN
    CASE o = "op"    -> IF c.k = 0 /\ v = 1
                        THEN Trap([Emit(m, [e |-> "op", k |-> c.k]) EXCEPT !.oct = @ + 1])
                        ELSE [Emit(nx, [e |-> "op", k |-> c.k]) EXCEPT !.oct = IF c.k = 0 THEN @ + 1 ELSE @]
      [] o = "cond"  -> [Emit(nx, [e |-> "cond", k |-> c.k, v |-> v])
                            EXCEPT !.vs = Append(@, v), !.occ[c.k] = @ + 1]
      [] o = "probe" -> Emit(nx, [e |-> "probe", p |-> c.p])
      [] o = "nop"   -> nx
      [] o = "const" -> [nx EXCEPT !.vs = Append(@, c.v)]
      [] o = "drop"  -> IF Len(m.vs) = 0 THEN Stuck(m) ELSE [nx EXCEPT !.vs = Pop(@)]
      [] o = "lget"  -> [nx EXCEPT !.vs = Append(@, LocOf(m, c.x))]
      [] o = "lset"  -> IF Len(m.vs) = 0 THEN Stuck(m)
                        ELSE [nx EXCEPT !.vs = Pop(@), !.loc = (c.x :> Top(m.vs)) @@ @]
      [] o \in {"block", "try"} -> [nx EXCEPT !.ls = Append(@, Label("block", jt[m.pc].end + 1, Len(m.vs), c.r, m.pc, jt[m.pc].end))]
      [] o = "loop"  -> [nx EXCEPT !.ls = Append(@, Label("loop", m.pc + 1, Len(m.vs), c.r, m.pc, jt[m.pc].end))]
      [] o = "if"    -> IF Len(m.vs) = 0 THEN Stuck(m)
                        ELSE LET cv == Top(m.vs)
                                 m1 == [m EXCEPT !.vs = Pop(@)]
                                 lb == Label("if", jt[m.pc].end + 1, Len(m1.vs), c.r, m.pc, jt[m.pc].end)
                             IN IF cv # 0 THEN [m1 EXCEPT !.pc = @ + 1, !.ls = Append(@, lb)]
                                ELSE IF jt[m.pc].els # 0
                                THEN [m1 EXCEPT !.pc = jt[m.pc].els + 1, !.ls = Append(@, lb)]
                                ELSE [m1 EXCEPT !.pc = jt[m.pc].end + 1]
      [] o = "else"  -> IF Len(m.ls) = 0 THEN Stuck(m)     \* then-arm fell through: leave the if
                        ELSE [m EXCEPT !.ls = Pop(@), !.pc = jt[m.pc].end + 1]
      [] o = "end"   -> IF Len(m.ls) = 0 THEN Return(m, ar)
                        ELSE [nx EXCEPT !.ls = Pop(@)]
      [] o = "br"    -> Branch(m, c.d, ar)
      [] o = "br_if" -> IF Len(m.vs) = 0 THEN Stuck(m)
                        ELSE IF Top(m.vs) # 0 THEN Branch([m EXCEPT !.vs = Pop(@)], c.d, ar)
                        ELSE [nx EXCEPT !.vs = Pop(@)]
      [] o = "br_table" -> IF Len(m.vs) = 0 THEN Stuck(m)
                           ELSE Branch([m EXCEPT !.vs = Pop(@)], BrTableDepth(c, Top(m.vs)), ar)
      \* references as integers: ref.null func = 0, ref.func = 1; br_on_null branches (dropping the reference) on a
      \* null one and otherwise falls through leaving it on the stack
      [] o = "rnull" -> [nx EXCEPT !.vs = Append(@, 0)]
      [] o = "rfunc" -> [nx EXCEPT !.vs = Append(@, 1)]
      [] o = "bron"  -> IF Len(m.vs) = 0 THEN Stuck(m)
                        ELSE IF Top(m.vs) = 0 THEN Branch([m EXCEPT !.vs = Pop(@)], c.d, ar)
                        ELSE nx
      \* the other reference-carrying branches (DESIGN 10.1; model side only so far, no alphabet item emits them):
      \* br_on_non_null keeps the reference for the label and falls through without it; br_on_cast / br_on_cast_fail
      \* (cast (ref null func) -> (ref func): it succeeds exactly on a non-null reference) leave it in both cases
      [] o = "bronn" -> IF Len(m.vs) = 0 THEN Stuck(m)
                        ELSE IF Top(m.vs) # 0 THEN Branch(m, c.d, ar)
                        ELSE [nx EXCEPT !.vs = Pop(@)]
      [] o = "brc"   -> IF Len(m.vs) = 0 THEN Stuck(m)
                        ELSE IF Top(m.vs) # 0 THEN Branch(m, c.d, ar) ELSE nx
      [] o = "brcf"  -> IF Len(m.vs) = 0 THEN Stuck(m)
                        ELSE IF Top(m.vs) = 0 THEN Branch(m, c.d, ar) ELSE nx
      [] o = "return"      -> Return(m, ar)
      [] o = "unreachable" -> Trap(m)
      \* an exception nobody in this function catches ends the activation like a trap does
      [] o = "throw"       -> Trap(m)
      \* tail call of the (never trapping) imported op k: its effect, then this activation is over
      [] o = "rcall"       -> Return(Emit(m, [e |-> "op", k |-> c.k]), ar)
      \* the same through table slot 0 (which holds op 3): return_call_indirect pops the slot index
      [] o = "rcalli"      -> IF Len(m.vs) = 0 THEN Stuck(m)
                              ELSE Return(Emit([m EXCEPT !.vs = Pop(@)], [e |-> "op", k |-> 3]), ar)
      [] OTHER -> Stuck(m)

---------------------------------------------------------------------------
\* comparison of event logs: non-probe events as a sequence, probes as one bag per
\* segment between consecutive non-probe events (B.1)
NonProbe(ev) == SelectSeq(ev, LAMBDA x : x.e # "probe")

RECURSIVE Segs(_, _, _)
Segs(ev, i, cur) ==      \* sequence of probe-id sequences, one per segment
    IF i > Len(ev) THEN <<cur>>
    ELSE IF ev[i].e = "probe" THEN Segs(ev, i + 1, Append(cur, ev[i].p))
    ELSE <<cur>> \o Segs(ev, i + 1, <<>>)
SortedSegs(ev) == LET s == Segs(ev, 1, <<>>) IN [i \in DOMAIN s |-> SortSeq(s[i], <)]

SameEvents(a, b) == NonProbe(a) = NonProbe(b) /\ SortedSegs(a) = SortedSegs(b)

\* multiset difference helpers for diagnostics: probes appearing more often in x than in y
CountIn(seq, p) == Cardinality({i \in DOMAIN seq : seq[i] = p})
ProbesOf(ev) == {ev[i].p : i \in {j \in DOMAIN ev : ev[j].e = "probe"}}
=============================================================================
