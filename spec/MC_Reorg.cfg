SPECIFICATION Spec
CONSTANT MaxN = 5
INVARIANTS NowOk MappingOk Idem
CHECK_DEADLOCK FALSE
