------------------------------ MODULE ValTypes ------------------------------
(***************************************************************************)
(* Value types through an unmodified parse -> encode (C01, C02).           *)
(*                                                                         *)
(* Ideal: every value type of the input appears unchanged in the output,   *)
(* at every position.                                                      *)
(* Impl-shaped: wirm converts the types of function signatures, locals and *)
(* struct/array fields to its own `DataType` and back (src/ir/types.rs);   *)
(* all other positions keep the wasmparser type.  Conv transcribes that    *)
(* conversion: `shared` is dropped, and exn/noexn have no nullable variant.*)
(* PredictedLoss is where Impl differs from Ideal -- TLC lists those pairs *)
(* (the design-level finding), and the trace spec uses the same predicate  *)
(* to recognise the known finding in real executions and nothing else.     *)
(* The module also enumerates section SHAPES (sets of independent module   *)
(* features) for the round trip.                                           *)
(***************************************************************************)
EXTENDS Naturals, Sequences, FiniteSets, TLC, Json, SequencesExt

Nums  == {"i32", "i64", "f32", "f64", "v128"}
Heaps == {"func", "extern", "any", "none", "noextern", "nofunc", "eq", "struct", "array", "i31",
          "exn", "noexn", "concrete"}
SharedHeaps == {"func", "extern", "any", "eq", "i31", "struct", "array", "none"}

ValueTypes ==
    {[k |-> "num", t |-> t] : t \in Nums}
    \cup {[k |-> "ref", null |-> n, shared |-> FALSE, heap |-> h] : n \in BOOLEAN, h \in Heaps}
    \cup {[k |-> "ref", null |-> n, shared |-> TRUE, heap |-> h] : n \in BOOLEAN, h \in SharedHeaps}

Positions == {"param", "result", "local", "global_import", "global_mut_import", "table_import",
              "struct_field", "array_elem", "block_result", "select", "tag_param", "type_param",
              "import_func"}
\* positions whose type goes through DataType
DataTypePositions == {"param", "result", "local", "struct_field", "array_elem", "tag_param",
                      "type_param", "import_func"}

\* transcription of From<ValType> for DataType followed by From<&DataType> for ValType
Conv(v) ==
    IF v.k = "num" THEN v
    ELSE [v EXCEPT !.shared = FALSE,
                   !.null = IF v.heap \in {"exn", "noexn"} THEN FALSE ELSE v.null]

ImplOut(v, pos)       == IF pos \in DataTypePositions THEN Conv(v) ELSE v
PredictedLoss(v, pos) == ImplOut(v, pos) # v

Features == {"rec", "dup_types", "imports", "tag", "table", "memory", "mem64", "globals", "exports",
             "start", "elem", "data", "customs", "names_front"}

=============================================================================
