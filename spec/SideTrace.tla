------------------------------ MODULE SideTrace ------------------------------
(***************************************************************************)
(* C23: Module::pull_side_effects.  Ideal (reading of DESIGN 6 C23): for   *)
(* every accepted tagged addition / tagged probe there is a record of the  *)
(* right kind carrying exactly that tag and the item's content, with       *)
(* function indices in the index space of the ENCODED module; records with *)
(* an empty tag are neither required nor forbidden; there is no record for *)
(* an item of the parsed module (never more records of a kind than items   *)
(* of that kind were added).                                               *)
(* Index space of the encoded module for the harness's base (1 import,     *)
(* locals f1, f2): added imports follow the original import, locals shift. *)
(***************************************************************************)
EXTENDS Naturals, Integers, Sequences, FiniteSets, TLC, Json, IOUtils
Cases == ndJsonDeserialize(IOEnv.TRACE)
VARIABLES cid, judged
vars == <<cid, judged>>
C == Cases[cid]
Range(s) == {s[i] : i \in DOMAIN s}
Chk(c, ok, d) == IF ok THEN TRUE ELSE PrintT(<<"VERDICT", ToJson([tr |-> C.id, c |-> c, d |-> d, how |-> C.how])>>)

Ok(i) == ~C.prog[i].panic
Count(op) == Cardinality({i \in DOMAIN C.prog : C.prog[i].op = op /\ Ok(i)})
Before(i, op) == Cardinality({j \in 1 .. i - 1 : C.prog[j].op = op /\ Ok(j)})
NImp == Count("add_import_func")
NImpMem == Count("add_import_memory")                   \* added imported memories come first in the output
FinalF(f) == f + NImp                                   \* base locals f = 1, 2
FinalBuilt(i) == 2 + NImp + Before(i, "build") + 1      \* the build op at position i
CallStr(f) == "Call { function_index: " \o ToString(FinalF(f)) \o " }"
ModeStr(m) == CASE m = "before" -> "Before" [] m = "after" -> "After" [] m = "alternate" -> "Alternate"
                [] m = "func_entry" -> "Entry" [] m = "func_exit" -> "Exit" [] OTHER -> m

\* what the record of op i must look like
Want(i) ==
    LET o == C.prog[i] IN
    CASE o.op = "add_import_func" -> [kind |-> "import", content |-> "added.i" \o ToString(i) \o " Func(0)"]
      [] o.op = "add_global" -> [kind |-> "global", content |-> "id=" \o ToString(1 + Before(i, "add_global"))
                                                   \o " I32 shared=false mutable=true init=[Value(I32(7))]"]
      [] o.op = "add_memory" -> [kind |-> "memory", content |-> "id=" \o ToString(NImpMem + 1 + Before(i, "add_memory")) \o " initial=2 maximum=Some(3)"]
      [] o.op = "add_import_memory" -> [kind |-> "import", content |-> "added.m" \o ToString(i) \o " Memory(MemoryType { memory64: false, shared: false, initial: 1, maximum: None, page_size_log2: None })"]
      [] o.op = "add_data"   -> [kind |-> "data", content |-> "passive [1, 2]"]
      \* the parsed module's memory sits behind the added imported memories in the output
      [] o.op = "add_data_active" -> [kind |-> "data", content |-> "active mem=" \o ToString(NImpMem) \o " off=[Value(I32(16))] [3]"]
      [] o.op = "add_export" -> [kind |-> "export", content |-> "x" \o ToString(i) \o " Func index=" \o ToString(FinalF(2))]
      \* adding a type that an earlier call already added adds nothing: no record is required then
      [] o.op = "add_type"   -> IF Before(i, "add_type") > 0 THEN [kind |-> "none"]
                                ELSE [kind |-> "type", content |-> "params=[I64] results=[]"]
      \* a type the parsed module already had: nothing was added, nothing is to be reported
      [] o.op = "add_type_parsed" -> [kind |-> "none"]
      [] o.op = "build"      -> [kind |-> "func", content |-> "id=" \o ToString(FinalBuilt(i)) \o " name=None sig=([I32], []) locals=[I64] body=[Nop, End]"]
      [] o.op = "probe" /\ o.mode \in {"before", "after", "alternate"} ->
            [kind |-> "probe", fid |-> FinalF(o.f), idx |-> o.instr, mode |-> ModeStr(o.mode), op |-> CallStr(o.target),
             content |-> "fid=" \o ToString(FinalF(o.f)) \o " idx=" \o ToString(o.instr) \o " mode=" \o ModeStr(o.mode) \o " body has " \o CallStr(o.target)]
      [] o.op = "probe" /\ o.mode \in {"func_entry", "func_exit"} ->
            [kind |-> "fprobe", fid |-> FinalF(o.f), mode |-> ModeStr(o.mode), op |-> CallStr(o.target),
             content |-> "fid=" \o ToString(FinalF(o.f)) \o " mode=" \o ModeStr(o.mode) \o " body has " \o CallStr(o.target)]
      [] OTHER -> [kind |-> "probe_special", op |-> CallStr(o.target), content |-> "body has " \o CallStr(o.target)]   \* special modes: tag + body, wherever it was lowered to

\* probe bodies may have been merged with other code lowered to the same list: the probe's own
\* instruction must be in the record's body
Has(r, op) == \E x \in DOMAIN r.bodyv : r.bodyv[x] = op
Matches(r, w, tag) ==
    /\ r.tag = tag
    /\ CASE w.kind = "none" -> TRUE
         [] w.kind = "probe_special" -> r.kind \in {"probe", "fprobe"} /\ Has(r, w.op)
         [] w.kind = "probe" -> r.kind = "probe" /\ r.fid = w.fid /\ r.idx = w.idx /\ r.mode = w.mode /\ Has(r, w.op)
         [] w.kind = "fprobe" -> r.kind = "fprobe" /\ r.fid = w.fid /\ r.mode = w.mode /\ Has(r, w.op)
         [] OTHER -> r.kind = w.kind /\ r.content = w.content

KindOps(kind) ==
    CASE kind = "import" -> Count("add_import_func") + Count("add_import_memory") [] kind = "global" -> Count("add_global")
      [] kind = "memory" -> Count("add_memory") [] kind = "data" -> Count("add_data") + Count("add_data_active")
      [] kind = "export" -> Count("add_export") [] kind = "func" -> Count("build")
      [] kind = "type" -> Count("add_type") + Count("build")
      [] OTHER -> 1000

IsCall(s) == Len(s) >= 5 /\ SubSeq(s, 1, 5) = "Call "
ProbeCalls == {CallStr(C.prog[i].target) : i \in {j \in DOMAIN C.prog : C.prog[j].op = "probe"}}
Init == cid \in 1 .. Len(Cases) /\ judged = FALSE
Judge ==
    /\ ~judged /\ judged' = TRUE /\ UNCHANGED cid
    /\ Chk("pull_panicked", ~C.panic, [msg |-> IF C.panic THEN C.msg ELSE ""])
    /\ C.panic \/
       /\ \A i \in DOMAIN C.prog :
            (Ok(i) /\ C.prog[i].tag # "") =>
               Chk("record_missing", Want(i).kind = "none" \/ \E r \in Range(C.records) : Matches(r, Want(i), C.prog[i].tag),
                   [op |-> C.prog[i].op, mode |-> (IF C.prog[i].op = "probe" THEN C.prog[i].mode ELSE ""), tag |-> C.prog[i].tag,
                    want |-> (IF Want(i).kind = "none" THEN "" ELSE Want(i).content),
                    special |-> (C.prog[i].op = "probe" /\ C.prog[i].mode \notin {"before", "after", "alternate", "func_entry", "func_exit"})])
       /\ \A i \in DOMAIN C.prog :
            (Ok(i) /\ C.prog[i].tag # "") =>
               Chk("record_duplicated", Want(i).kind = "none" \/ Cardinality({x \in DOMAIN C.records : Matches(C.records[x], Want(i), C.prog[i].tag)}) <= 1,
                   [op |-> C.prog[i].op, tag |-> C.prog[i].tag])
       /\ \A r \in Range(C.records) :
            /\ Chk("record_for_parsed_item",
                   Cardinality({x \in DOMAIN C.records : C.records[x].kind = r.kind}) <= KindOps(r.kind),
                   [kind |-> r.kind, content |-> r.content])
            \* the parsed module's own type () -> () is never an addition, whatever was "added" onto it
            /\ Chk("record_for_parsed_item", ~(r.kind = "type" /\ r.content = "params=[] results=[]"), [kind |-> r.kind, content |-> r.content, tag |-> r.tag])
            /\ Chk("unknown_tag", r.tag = "" \/ \E i \in DOMAIN C.prog : C.prog[i].tag = r.tag, [kind |-> r.kind, tag |-> r.tag])
            \* every probe record, tagged or not (lowered copies are untagged), speaks the index space of the output
            /\ (r.kind \in {"probe", "fprobe"}) =>
                 \A x \in DOMAIN r.bodyv :
                    Chk("record_index_space", IsCall(r.bodyv[x]) => r.bodyv[x] \in ProbeCalls,
                        [kind |-> r.kind, tag |-> r.tag, op |-> r.bodyv[x], expected |-> ProbeCalls])
       \* ... and so does the module encoded after the report was pulled
       /\ \A x \in DOMAIN C.calls_after :
            Chk("encoded_index_space", C.calls_after[x] \in ProbeCalls, [op |-> C.calls_after[x], expected |-> ProbeCalls])
Spec == Init /\ [][Judge]_vars
=============================================================================
