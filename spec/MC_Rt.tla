------------------------------- MODULE MC_Rt -------------------------------
(***************************************************************************)
(* Generator of unmodified round-trip cases (C01, C02): every value type   *)
(* of ValTypes at every position, and every subset of the section          *)
(* features; checks Impl => Ideal of the DataType conversion at the design *)
(* level (LOSS lines list where it fails).                                 *)
(***************************************************************************)
EXTENDS ValTypes

VARIABLES kind, vt, pos, feat
vars == <<kind, vt, pos, feat>>
Init == kind = "none" /\ vt = [k |-> "num", t |-> "i32"] /\ pos = "param" /\ feat = {}
PickType == kind = "none" /\ kind' = "vt" /\ vt' \in ValueTypes /\ pos' \in Positions /\ UNCHANGED feat
PickShape == kind = "none" /\ kind' = "shape" /\ feat' \in SUBSET Features /\ UNCHANGED <<vt, pos>>
Next == PickType \/ PickShape
Spec == Init /\ [][Next]_vars

\* Impl => Ideal at the design level: holds exactly where no loss is predicted; the states in which it
\* fails are printed (LOSS lines) rather than stopping the run, so that all of them are listed
ImplRefinesIdeal == kind = "vt" => (PredictedLoss(vt, pos) => PrintT(<<"LOSS", ToJson([vt |-> vt, pos |-> pos])>>))
EmitCase ==
    /\ kind = "vt" => PrintT(<<"REPLAY", ToJson([kind |-> "vt", vt |-> vt, pos |-> pos])>>)
    /\ kind = "shape" => PrintT(<<"REPLAY", ToJson([kind |-> "shape", feat |-> SetToSeq(feat)])>>)
=============================================================================
