-------------------------------- MODULE Reorg --------------------------------
(***************************************************************************)
(* Impl-shaped transcription of Module::reorganise_generic and             *)
(* get_mapping_generic (src/ir/module/mod.rs), the re-indexing step that   *)
(* every encode runs for the function, global and memory index spaces,     *)
(* together with the Ideal it has to meet and the two former versions of   *)
(* the algorithm (before the fix: commits 801e991 and 556e4a6) as          *)
(* documented counterexamples.                                             *)
(*                                                                         *)
(* An item is [id, imp, del, iid]:                                         *)
(*   id  - the ID the caller knows it under (its position when created)    *)
(*   imp - it is an import NOW (kind may have been converted)              *)
(*   del - deleted                                                         *)
(*   iid - position of its entry in the imports vector (import-section     *)
(*         order); meaningful when imp                                     *)
(* `n0` is the number of imports the parsed module had: positions < n0     *)
(* were imports originally, positions >= n0 were local or added later.     *)
(***************************************************************************)
EXTENDS Naturals, Integers, Sequences, FiniteSets, TLC

RemoveAt(s, i) == SubSeq(s, 1, i - 1) \o SubSeq(s, i + 1, Len(s))          \* 1-based
InsertAt(s, i, x) == SubSeq(s, 1, i - 1) \o <<x>> \o SubSeq(s, i, Len(s))    \* x ends up at position i

\* stable insertion sort of the first n items by iid (Vec::sort_by_key is stable)
RECURSIVE InsSorted(_, _)
InsSorted(sorted, x) ==
    IF sorted = <<>> THEN <<x>>
    ELSE IF sorted[Len(sorted)].iid <= x.iid THEN Append(sorted, x)
    ELSE Append(InsSorted(SubSeq(sorted, 1, Len(sorted) - 1), x), sorted[Len(sorted)])
RECURSIVE SortByIid(_)
SortByIid(s) == IF s = <<>> THEN <<>> ELSE InsSorted(SortByIid(SubSeq(s, 1, Len(s) - 1)), s[Len(s)])

\* ---- the loop of reorganise_generic: state [items, ni (num_imported), nd (num_deleted)] ----------
\* `delFirst`: the deleted test comes first (current code); otherwise the former order of the tests.
StepNow(st, idx, val, n0) ==
    LET pos == idx - st.nd + 1 IN      \* 1-based position of (idx - num_deleted)
    IF idx < n0 THEN
        IF val.del THEN [items |-> RemoveAt(st.items, pos), ni |-> st.ni - 1, nd |-> st.nd + 1]
        ELSE IF ~val.imp THEN [items |-> Append(RemoveAt(st.items, pos), st.items[pos]), ni |-> st.ni - 1, nd |-> st.nd + 1]
        ELSE st
    ELSE
        IF val.del THEN [items |-> RemoveAt(st.items, pos), ni |-> st.ni, nd |-> st.nd + 1]
        ELSE IF val.imp THEN [items |-> InsertAt(RemoveAt(st.items, pos), st.ni + 1, st.items[pos]), ni |-> st.ni + 1, nd |-> st.nd]
        ELSE st

StepOld(st, idx, val, n0) ==
    LET pos == idx - st.nd + 1 IN
    IF idx < n0 THEN
        IF ~val.imp THEN [items |-> Append(RemoveAt(st.items, pos), st.items[pos]), ni |-> st.ni - 1, nd |-> st.nd + 1]
        ELSE IF val.del THEN [items |-> RemoveAt(st.items, pos), ni |-> st.ni - 1, nd |-> st.nd + 1]
        ELSE st
    ELSE
        IF val.imp THEN [items |-> InsertAt(RemoveAt(st.items, pos), st.ni + 1, st.items[pos]), ni |-> st.ni + 1, nd |-> st.nd]
        ELSE IF val.del THEN [items |-> RemoveAt(st.items, pos), ni |-> st.ni, nd |-> st.nd + 1]
        ELSE st

RECURSIVE Loop(_, _, _, _, _)
Loop(st, idx, ro, n0, now) ==
    IF idx >= Len(ro) THEN st
    ELSE Loop(IF now THEN StepNow(st, idx, ro[idx + 1], n0) ELSE StepOld(st, idx, ro[idx + 1], n0), idx + 1, ro, n0, now)

\* current code: loop, then sort the imported prefix by import id
ReorgNow(items, n0) ==
    LET st == Loop([items |-> items, ni |-> n0, nd |-> 0], 0, items, n0, TRUE) IN
    SortByIid(SubSeq(st.items, 1, st.ni)) \o SubSeq(st.items, st.ni + 1, Len(st.items))
\* the code as it was on the pinned tree: former test order, no sort
ReorgOld(items, n0) == Loop([items |-> items, ni |-> n0, nd |-> 0], 0, items, n0, FALSE).items
\* only the first fix (test order) without the sort
ReorgNoSort(items, n0) == Loop([items |-> items, ni |-> n0, nd |-> 0], 0, items, n0, TRUE).items

\* get_mapping_generic: old id -> new index
MappingOf(out) == [i \in {out[k].id : k \in DOMAIN out} |-> (CHOOSE k \in DOMAIN out : out[k].id = i) - 1]

\* ---- Ideal ------------------------------------------------------------------------------------------
\* the output holds exactly the live items, once each; every import precedes every local; the imports are
\* in import-section order (iid ascending).  (Nothing is required of the relative order of locals: references
\* are rewritten through MappingOf.)
Live(items) == {items[k] : k \in {j \in DOMAIN items : ~items[j].del}}
IdealOk(items, out) ==
    /\ {out[k] : k \in DOMAIN out} = Live(items)
    /\ Len(out) = Cardinality(Live(items))
    /\ \A a, b \in DOMAIN out : (a < b /\ out[b].imp) => (out[a].imp /\ out[a].iid < out[b].iid)

\* ---- the input space ---------------------------------------------------------------------------------
\* all item vectors of length n with n0 original imports: ids are positions; original imports that are still
\* imports keep increasing iids (their order in the parsed import section); items that became imports later
\* (added, or converted locals) got iids above all original ones, in ANY order relative to their positions
\* (the order of the calls); kinds and deleted flags are arbitrary.
Perms(S) == {f \in [1 .. Cardinality(S) -> S] : \A a, b \in 1 .. Cardinality(S) : a # b => f[a] # f[b]}
Vectors(n, n0) ==
    UNION { LET late == {k \in 1 .. n : k > n0 /\ kinds[k]} IN
            { [k \in 1 .. n |->
                  [id |-> k - 1, imp |-> kinds[k], del |-> dels[k],
                   iid |-> IF ~kinds[k] THEN 0
                           ELSE IF k <= n0 THEN k - 1
                           ELSE n0 + (CHOOSE x \in 1 .. Cardinality(late) : p[x] = k) - 1]]
              : p \in Perms(late) }
          : kinds \in [1 .. n -> BOOLEAN], dels \in [1 .. n -> BOOLEAN] }

\* ---- documented witnesses of the former behaviour (evaluated by TLC at start-up) -------------------------
\* S15: an added import that is deleted again keeps a slot (former test order)
W15 == << [id |-> 0, imp |-> TRUE, del |-> FALSE, iid |-> 0], [id |-> 1, imp |-> FALSE, del |-> FALSE, iid |-> 0],
          [id |-> 2, imp |-> TRUE, del |-> TRUE, iid |-> 1] >>
ASSUME ~IdealOk(W15, ReorgOld(W15, 1)) /\ IdealOk(W15, ReorgNow(W15, 1))
\* S14: two locals converted in descending order: the prefix is in position order, the import section in call order
W14 == << [id |-> 0, imp |-> TRUE, del |-> FALSE, iid |-> 0], [id |-> 1, imp |-> TRUE, del |-> FALSE, iid |-> 2],
          [id |-> 2, imp |-> TRUE, del |-> FALSE, iid |-> 1] >>
ASSUME ~IdealOk(W14, ReorgNoSort(W14, 1)) /\ IdealOk(W14, ReorgNow(W14, 1))
=============================================================================
