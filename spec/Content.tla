------------------------------- MODULE Content -------------------------------
(***************************************************************************)
(* Ideal semantics of wirm's content-adding APIs (C12, C13, C14, C28, C30) *)
(* as LIST operations.  Item contents are opaque canonical strings (the    *)
(* harness renders every request independently of wirm with wasm-encoder + *)
(* wasmparser); what the spec decides is positions, returned indices,      *)
(* deduplication and "nothing else changes".                               *)
(*                                                                         *)
(* State E: [types, l1, l2, p1, p2, funcs, globals, mems, data, exports,   *)
(*           customs, nfuncs]                                              *)
(***************************************************************************)
EXTENDS Naturals, Integers, Sequences, FiniteSets, TLC

TyStr(t) == CASE t = "i32" -> "I32" [] t = "i64" -> "I64" [] t = "f32" -> "F32" [] t = "f64" -> "F64"
              [] t = "v128" -> "V128" [] OTHER -> t
TyStrs(ts) == [i \in DOMAIN ts |-> TyStr(ts[i])]

BodyStr(b) == CASE b = "nop" -> "Nop" [] b = "drop" -> "Drop"
                [] b = "i32_const_7" -> "I32Const { value: 7 }"
                [] b = "i64_const_m1" -> "I64Const { value: -1 }"
                [] b = "local_get_0" -> "LocalGet { local_index: 0 }"
                [] b = "local_set_0" -> "LocalSet { local_index: 0 }"
                [] b = "call_0" -> "Call { function_index: 0 }"
                [] b = "unreachable" -> "Unreachable"
                [] b = "block" -> "Block { blockty: Empty }" [] b = "loop" -> "Loop { blockty: Empty }"
                [] b = "if" -> "If { blockty: Empty }" [] b = "else" -> "Else" [] b = "end" -> "End"
BodyStrs(bs) == [i \in DOMAIN bs |-> BodyStr(bs[i])] \o <<"End">>

\* strip the marker of explicit rec-group membership: type equality is structural (DESIGN 6 C13)
Strip(s) == IF Len(s) >= 4 /\ SubSeq(s, 1, 4) = "rec:" THEN SubSeq(s, 5, Len(s)) ELSE s
Strips(ss) == [i \in DOMAIN ss |-> Strip(ss[i])]

RemoveAtIdx(s, i) == SubSeq(s, 1, i - 1) \o SubSeq(s, i + 1, Len(s))

\* ---- C14 ------------------------------------------------------------------
\* f = 0: the function that replaced an import before the program started (p0 parameters, locals l0)
AddLocalRet(E, f)    == CASE f = 0 -> E.p0 + Len(E.l0) [] f = 1 -> E.p1 + Len(E.l1) [] OTHER -> E.p2 + Len(E.l2)
AddLocal(E, f, ty)   == CASE f = 0 -> [E EXCEPT !.l0 = Append(@, TyStr(ty))]
                          [] f = 1 -> [E EXCEPT !.l1 = Append(@, TyStr(ty))]
                          [] OTHER -> [E EXCEPT !.l2 = Append(@, TyStr(ty))]
\* FunctionModifier::add_locals(&[ty, ty, other]): three fresh locals in request order (the harness reports the first index)
OtherTy(ty) == IF ty = "i64" THEN "f32" ELSE "i64"
AddLocals3(E, f, ty) == AddLocal(AddLocal(AddLocal(E, f, ty), f, ty), f, OtherTy(ty))
\* ---- C12 ------------------------------------------------------------------
BuiltFunc(op) == [params |-> TyStrs(op.params), results |-> TyStrs(op.results), locals |-> TyStrs(op.locals),
                  body |-> BodyStrs(op.body), name |-> op.name]
BuiltLocalIds(op) == [k \in DOMAIN op.locals |-> Len(op.params) + k - 1]
\* ---- C13 ------------------------------------------------------------------
TypePositions(E, req) == {i \in DOMAIN E.types : E.types[i] = req}
AddTypeRetOk(E, req, ret) == IF TypePositions(E, req) # {} THEN ret + 1 \in TypePositions(E, req) ELSE ret = Len(E.types)
AddType(E, req) == IF TypePositions(E, req) # {} THEN E ELSE [E EXCEPT !.types = Append(@, req)]
\* ---- C30 ------------------------------------------------------------------
\* IDs returned by the API are HANDLES: the n-th item ever known in an index space has handle n-1.
\* E.fh / E.gh / E.mh record, per handle, whether the item is imported.  The encoded index of a
\* handle puts imported items first (in handle order), then local ones (in handle order).
Flags(E, sp) == CASE sp = "f" -> E.fh [] sp = "g" -> E.gh [] sp = "m" -> E.mh
CountImp(fl, n) == Cardinality({j \in 1 .. n : fl[j]})
FinalIdx(E, sp, h) ==
    LET fl == Flags(E, sp) IN
    IF h + 1 \notin DOMAIN fl THEN -1
    ELSE IF fl[h + 1] THEN CountImp(fl, h + 1) - 1
    ELSE CountImp(fl, Len(fl)) + (h + 1 - CountImp(fl, h + 1)) - 1
\* position (1-based) of local handle h in the list of local items
LocalPos(E, sp, h) == h + 1 - CountImp(Flags(E, sp), h + 1)
\* items that carry references: [s |-> text with @ for indices, refs |-> <<[sp, idx]>>]; a decoded item d
\* agrees with an expected item e when texts agree and every decoded index is the final index of e's handle
ItemOk(E, d, e) == /\ d.s = e.s /\ Len(d.refs) = Len(e.refs)
                   /\ \A j \in DOMAIN e.refs : d.refs[j].sp = e.refs[j].sp /\ d.refs[j].idx = FinalIdx(E, e.refs[j].sp, e.refs[j].idx)
ItemsOk(E, ds, es) == Len(ds) = Len(es) /\ \A i \in DOMAIN es : ItemOk(E, ds[i], es[i])
NextHandle(E, sp) == Len(Flags(E, sp))
AddGlobal(E, req) == [E EXCEPT !.globals = Append(@, req), !.gh = Append(@, FALSE)]
AddIGlobal(E, req) == [E EXCEPT !.iglobals = Append(@, req), !.gh = Append(@, TRUE)]
ModInit(E, g, req) == [E EXCEPT !.globals[LocalPos(E, "g", g)] = req]
AddData(E, req)   == [E EXCEPT !.data = Append(@, req)]
AddMemory(E, req) == [E EXCEPT !.mems = Append(@, req), !.mh = Append(@, FALSE)]
AddIMemory(E, req) == [E EXCEPT !.imems = Append(@, req), !.mh = Append(@, TRUE)]
AddIFunc(E)       == [E EXCEPT !.fh = Append(@, TRUE)]
AddExport(E, x)   == [E EXCEPT !.exports = @ \cup {x}]
SpOfKind(k) == CASE k = "Func" -> "f" [] k = "Global" -> "g" [] k = "Memory" -> "m" [] OTHER -> "?"
\* ---- C28 ------------------------------------------------------------------
CustAdd(E, name, bytes) == [E EXCEPT !.customs = Append(@, [name |-> name, bytes |-> bytes])]
CustDel(E, id) == IF id < Len(E.customs) THEN [E EXCEPT !.customs = RemoveAtIdx(@, id + 1)] ELSE E
\* by-name lookup: the ID of the first custom section with that name, -1 when there is none
CustFind(E, name) ==
    LET hits == {i \in DOMAIN E.customs : E.customs[i].name = name}
    IN IF hits = {} THEN -1 ELSE (CHOOSE i \in hits : \A j \in hits : i <= j) - 1
CustModOk(E, id) == id < Len(E.customs)
CustMod(E, id, bytes) == IF id < Len(E.customs) THEN [E EXCEPT !.customs[id + 1].bytes = bytes] ELSE E
=============================================================================
