------------------------------- MODULE Content -------------------------------
(***************************************************************************)
(* Ideal semantics of wirm's content-adding APIs (C12, C13, C14, C28, C30) *)
(* as LIST operations.  Item contents are opaque canonical strings (the    *)
(* harness renders every request independently of wirm with wasm-encoder + *)
(* wasmparser); what the spec decides is positions, returned indices,      *)
(* deduplication and "nothing else changes".                               *)
(*                                                                         *)
(* State E: [types, l1, l2, p1, p2, funcs, globals, mems, data, exports,   *)
(*           customs, nfuncs]                                              *)
(***************************************************************************)
EXTENDS Naturals, Integers, Sequences, FiniteSets, TLC

TyStr(t) == CASE t = "i32" -> "I32" [] t = "i64" -> "I64" [] t = "f32" -> "F32" [] t = "f64" -> "F64"
              [] t = "v128" -> "V128" [] OTHER -> t
TyStrs(ts) == [i \in DOMAIN ts |-> TyStr(ts[i])]

BodyStr(b) == CASE b = "nop" -> "Nop" [] b = "drop" -> "Drop"
                [] b = "i32_const_7" -> "I32Const { value: 7 }"
                [] b = "i64_const_m1" -> "I64Const { value: -1 }"
                [] b = "local_get_0" -> "LocalGet { local_index: 0 }"
                [] b = "local_set_0" -> "LocalSet { local_index: 0 }"
                [] b = "call_0" -> "Call { function_index: 0 }"
                [] b = "unreachable" -> "Unreachable"
BodyStrs(bs) == [i \in DOMAIN bs |-> BodyStr(bs[i])] \o <<"End">>

\* strip the marker of explicit rec-group membership: type equality is structural (DESIGN 6 C13)
Strip(s) == IF Len(s) >= 4 /\ SubSeq(s, 1, 4) = "rec:" THEN SubSeq(s, 5, Len(s)) ELSE s
Strips(ss) == [i \in DOMAIN ss |-> Strip(ss[i])]

RemoveAtIdx(s, i) == SubSeq(s, 1, i - 1) \o SubSeq(s, i + 1, Len(s))

\* ---- C14 ------------------------------------------------------------------
AddLocalRet(E, f)    == IF f = 1 THEN E.p1 + Len(E.l1) ELSE E.p2 + Len(E.l2)
AddLocal(E, f, ty)   == IF f = 1 THEN [E EXCEPT !.l1 = Append(@, TyStr(ty))] ELSE [E EXCEPT !.l2 = Append(@, TyStr(ty))]
\* ---- C12 ------------------------------------------------------------------
BuiltFunc(op) == [params |-> TyStrs(op.params), results |-> TyStrs(op.results), locals |-> TyStrs(op.locals),
                  body |-> BodyStrs(op.body), name |-> op.name]
BuiltLocalIds(op) == [k \in DOMAIN op.locals |-> Len(op.params) + k - 1]
\* ---- C13 ------------------------------------------------------------------
TypePositions(E, req) == {i \in DOMAIN E.types : E.types[i] = req}
AddTypeRetOk(E, req, ret) == IF TypePositions(E, req) # {} THEN ret + 1 \in TypePositions(E, req) ELSE ret = Len(E.types)
AddType(E, req) == IF TypePositions(E, req) # {} THEN E ELSE [E EXCEPT !.types = Append(@, req)]
\* ---- C30 ------------------------------------------------------------------
AddGlobal(E, req) == [E EXCEPT !.globals = Append(@, req)]
ModInit(E, g, req) == [E EXCEPT !.globals[g + 1] = req]
AddData(E, req)   == [E EXCEPT !.data = Append(@, req)]
AddMemory(E, req) == [E EXCEPT !.mems = Append(@, req)]
AddExport(E, x)   == [E EXCEPT !.exports = @ \cup {x}]
\* ---- C28 ------------------------------------------------------------------
CustAdd(E, name, bytes) == [E EXCEPT !.customs = Append(@, [name |-> name, bytes |-> bytes])]
CustDel(E, id) == IF id < Len(E.customs) THEN [E EXCEPT !.customs = RemoveAtIdx(@, id + 1)] ELSE E
CustModOk(E, id) == id < Len(E.customs)
CustMod(E, id, bytes) == IF id < Len(E.customs) THEN [E EXCEPT !.customs[id + 1].bytes = bytes] ELSE E
=============================================================================
