------------------------------- MODULE MC_Parse -------------------------------
(* generator: every combination of up to MaxParts parts of different kinds *)
EXTENDS ParseRobust, Json, SequencesExt
CONSTANT MaxParts
VARIABLES parts, done
vars == <<parts, done>>
Init == parts = <<>> /\ done = FALSE
Rank == [version |-> 1, name_func |-> 2, name_local |-> 3, func_type |-> 4, tag |-> 5, global_init |-> 6,
         data_offset |-> 7, start |-> 8, data_count |-> 9, code |-> 10, producers |-> 11, unknown_section |-> 12]
Kinds(ps) == {ps[i].p : i \in DOMAIN ps}
Add == /\ ~done /\ Len(parts) < MaxParts
       /\ \E x \in PartVariants :
            /\ x.p \notin Kinds(parts)
            /\ \A i \in DOMAIN parts : Rank[parts[i].p] < Rank[x.p]     \* canonical order
            /\ ~(x.p = "name_local" /\ \E i \in DOMAIN parts : parts[i].p = "name_func" /\ parts[i].at # x.at)
            /\ parts' = Append(parts, x)
       /\ UNCHANGED done
Finish == ~done /\ done' = TRUE /\ UNCHANGED parts
Next == Add \/ Finish
Spec == Init /\ [][Next]_vars
NeverPanics == Outcome(parts) \in {"ok", "err"}
EmitCase == done => PrintT(<<"REPLAY", ToJson([parts |-> parts, expect |-> Outcome(parts)])>>)
=============================================================================
