SPECIFICATION Spec
INVARIANT MachinesOk
CHECK_DEADLOCK FALSE
