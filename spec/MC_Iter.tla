------------------------------ MODULE MC_Iter ------------------------------
(***************************************************************************)
(* Bounded-exhaustive generator of iterator cases (C25, C26): module and   *)
(* component shapes (metadata), skip lists and scripts of next/reset, plus *)
(* injection plans for the ComponentIterator-vs-ModuleIterator comparison. *)
(* Also checks properties of the Ideal visiting order itself.              *)
(***************************************************************************)
EXTENDS IterIdeal, Json

CONSTANTS MaxFuncs,    \* local functions per module (module cases)
          MaxInstr,    \* instructions per function
          MaxMods      \* modules per component

VARIABLES kind, mods, skips, script, plan, stage
vars == <<kind, mods, skips, script, plan, stage>>

Seqs(S, n) == UNION {[1 .. k -> S] : k \in 0 .. n}

ModShapes  == {[nimp |-> ni, funcs |-> f, repl |-> 0] : ni \in {0, 2}, f \in Seqs(1 .. MaxInstr, MaxFuncs)}
              \* import 0 replaced by a built function of 2 instructions before the iterator is created
              \cup {[nimp |-> 2, funcs |-> f, repl |-> 2] : f \in Seqs(1 .. MaxInstr, MaxFuncs - 1)}
CompShape(i) == {[nimp |-> i - 1, funcs |-> f, repl |-> 0] : f \in Seqs(1 .. 2, 2)}

\* skip lists are given as positions of local functions (0-based); -1 = an ID that is no local function
SkipSets(md) == SUBSET ((0 .. Len(md.funcs) - 1) \cup {-1})
SkipSetsC(md) == SUBSET (0 .. Len(md.funcs) - 1)
SetToSeq(S) == CHOOSE s \in [1 .. Cardinality(S) -> S] : {s[i] : i \in DOMAIN s} = S
Rev(s) == [i \in DOMAIN s |-> s[Len(s) + 1 - i]]

Ids(md, sk) == [x \in DOMAIN sk |-> IF sk[x] < 0 THEN md.nimp + Len(md.funcs) + 7 ELSE md.nimp + sk[x]]
V == Visit(mods, [m \in DOMAIN mods |-> Ids(mods[m], skips[m])])

Nexts(n) == [i \in 1 .. n |-> "next"]
Scripts == {Nexts(a) : a \in 0 .. Len(V) + 2}
           \cup {Nexts(a) \o <<"reset">> \o Nexts(b) : a \in 0 .. Len(V) + 1, b \in 0 .. 2}

Init == kind = "none" /\ mods = <<>> /\ skips = <<>> /\ script = <<>> /\ plan = <<>> /\ stage = "shape"

ChooseModule ==
    /\ stage = "shape"
    \* the skip list is a Vec: it is given in some order and in the reverse of it (nothing says it must be sorted)
    /\ \E md \in ModShapes : \E sk \in SkipSets(md) : \E rev \in BOOLEAN :
         /\ (rev => Cardinality(sk) >= 2)
         /\ mods' = <<md>> /\ skips' = <<IF rev THEN Rev(SetToSeq(sk)) ELSE SetToSeq(sk)>>
    /\ kind' = "module" /\ stage' = "script" /\ UNCHANGED <<script, plan>>

ChooseComponent ==
    /\ stage = "shape"
    /\ \E n \in 1 .. MaxMods :
         \E ms \in [1 .. n -> UNION {CompShape(i) : i \in 1 .. MaxMods}] :
            /\ \A i \in 1 .. n : ms[i] \in CompShape(i)
            /\ \E sks \in [1 .. n -> SUBSET (0 .. 1)] :
                 /\ \A i \in 1 .. n : sks[i] \in SkipSetsC(ms[i])
                 /\ \E rev \in BOOLEAN :
                      /\ (rev => \E i \in 1 .. n : Cardinality(sks[i]) >= 2)
                      /\ mods' = ms /\ skips' = [i \in 1 .. n |-> IF rev THEN Rev(SetToSeq(sks[i])) ELSE SetToSeq(sks[i])]
    /\ kind' = "component" /\ stage' = "script" /\ UNCHANGED <<script, plan>>

\* longer components (3 and 4 modules) of tiny modules: the order of the modules matters, not their contents
ChooseLongComponent ==
    /\ stage = "shape"
    /\ \E n \in {3, 4} : \E fs \in [1 .. n -> {<<>>, <<1>>, <<1, 1>>}] : \E skl \in BOOLEAN :
         /\ mods' = [i \in 1 .. n |-> [nimp |-> 0, funcs |-> fs[i], repl |-> 0]]
         \* optionally skip the last function of every module that has two
         /\ skips' = [i \in 1 .. n |-> IF skl /\ Len(fs[i]) = 2 THEN <<1>> ELSE <<>>]
    /\ kind' = "component" /\ stage' = "script" /\ UNCHANGED <<script, plan>>

ChooseScript ==
    /\ stage = "script"
    /\ \E s \in Scripts : script' = s
    /\ stage' = "done" /\ UNCHANGED <<kind, mods, skips, plan>>

\* C26: injections through the component iterator (no skips)
Sites == {[mod |-> m - 1, func |-> j - 1, instr |-> i - 1] :
             m \in DOMAIN mods, j \in 1 .. 2, i \in 1 .. 2}
GoodSite(s) == s.mod + 1 \in DOMAIN mods /\ s.func + 1 \in DOMAIN mods[s.mod + 1].funcs
               /\ s.instr < mods[s.mod + 1].funcs[s.func + 1]
PlanEntry(s, md) == [mod |-> s.mod, func |-> s.func, instr |-> s.instr, mode |-> md]
ChoosePlan ==
    /\ stage = "script" /\ kind = "component" /\ \A m \in DOMAIN skips : skips[m] = <<>>
    /\ \E s \in {x \in Sites : GoodSite(x)}, md \in {"before", "after", "func_entry", "func_exit"} :
         \/ plan' = <<PlanEntry(s, md)>>
         \/ \E s2 \in {x \in Sites : GoodSite(x)} :
               s2.mod # s.mod /\ plan' = <<PlanEntry(s, md), PlanEntry(s2, "before")>>
    /\ stage' = "plan" /\ UNCHANGED <<kind, mods, skips, script>>

Next == ChooseModule \/ ChooseComponent \/ ChooseLongComponent \/ ChooseScript \/ ChoosePlan
Spec == Init /\ [][Next]_vars

\* ---- properties of the Ideal visiting order -------------------------------------
\* every instruction of every non-skipped local function exactly once, in order
TotalInstr ==
    LET Cnt(m) == LET md == mods[m] sk == {Ids(md, skips[m])[x] : x \in DOMAIN skips[m]} IN
                  LET idx == {j \in DOMAIN md.funcs : (md.nimp + j - 1) \notin sk} IN
                  LET RECURSIVE S(_) S(T) == IF T = {} THEN 0 ELSE LET j == CHOOSE x \in T : TRUE IN md.funcs[j] + S(T \ {j})
                  IN S(idx) + (IF 0 \in sk THEN 0 ELSE Repl(md))
        RECURSIVE Sum(_) Sum(m) == IF m > Len(mods) THEN 0 ELSE Cnt(m) + Sum(m + 1)
    IN Sum(1)
VisitComplete == stage # "shape" => Len(V) = TotalInstr
VisitOrdered  == stage # "shape" =>
    \A a, b \in DOMAIN V : a < b =>
        \/ V[a].mod < V[b].mod
        \/ V[a].mod = V[b].mod /\ V[a].fid < V[b].fid
        \/ V[a].mod = V[b].mod /\ V[a].fid = V[b].fid /\ V[a].idx < V[b].idx
EndFlags == stage # "shape" =>
    \A a \in DOMAIN V : V[a].end <=> (a = Len(V) \/ V[a + 1].fid # V[a].fid \/ V[a + 1].mod # V[a].mod)

EmitCase ==
    /\ stage = "done" => PrintT(<<"REPLAY", ToJson([kind |-> kind, mods |-> mods, skips |-> skips, script |-> script])>>)
    /\ stage = "plan" => PrintT(<<"REPLAY", ToJson([kind |-> kind, mods |-> mods, skips |-> skips, plan |-> plan])>>)
=============================================================================
