------------------------------ MODULE MC_Opcode ------------------------------
(* generator: every helper x every admissible immediate selection x both injection paths *)
EXTENDS OpcodeIdeal, Json
VARIABLES hi, sel, path
vars == <<hi, sel, path>>
Init == hi = 0 /\ sel = <<>> /\ path = "none"
Pick == /\ hi = 0
        /\ hi' \in DOMAIN Helpers
        /\ sel' \in Selections(Helpers[hi'])
        /\ path' \in {"builder", "iter"}
Next == Pick
Spec == Init /\ [][Next]_vars
\* the table is well formed: one field per parameter, mnemonics unique per helper except the
\* unsigned-constant helpers, which share the signed constant's instruction
TableOk == /\ \A i \in DOMAIN Helpers : Len(Helpers[i].kinds) = Len(Helpers[i].fields)
           /\ \A i, j \in DOMAIN Helpers :
                (i # j /\ Helpers[i].m = Helpers[j].m) => {Helpers[i].h, Helpers[j].h} \cap {"u32_const", "u64_const"} # {}
EmitCase == hi # 0 =>
    LET row == Helpers[hi] IN
    PrintT(<<"REPLAY", ToJson([helper |-> row.h, path |-> path, kinds |-> row.kinds, sel |-> sel,
                                ins |-> [k \in DOMAIN row.kinds |-> ClassVals(row.kinds[k])[sel[k]].in]])>>)
=============================================================================
