----------------------------- MODULE IterTrace -----------------------------
(***************************************************************************)
(* Validates recorded executions of ModuleIterator / ComponentIterator     *)
(* (events: new, loc, next, reset with their results or a panic) and of    *)
(* the injection-equivalence experiment of C26 against IterIdeal.          *)
(* Total monitor: failed conjuncts print VERDICT lines.                    *)
(***************************************************************************)
EXTENDS IterIdeal, Json, IOUtils

Cases == ndJsonDeserialize(IOEnv.TRACE)
N == Len(Cases)

VARIABLES cid, k, p, exh, dead
vars == <<cid, k, p, exh, dead>>

C == Cases[cid]
IsSkip(c) == "skip" \in DOMAIN Cases[c]
V == IF C.t = "iter" /\ ~IsSkip(cid) THEN Visit(C.mods, C.skips) ELSE <<>>

Chk(c, ok, d) ==
    IF ok THEN TRUE
    ELSE PrintT(<<"VERDICT", ToJson([tr |-> C.id, c |-> c, d |-> d, kind |-> (IF C.t = "iter" THEN C.kind ELSE "inj"),
                                     nvisit |-> Len(V), k |-> k])>>)

Init == cid \in 1 .. N /\ k = 1 /\ p = 1 /\ exh = FALSE /\ dead = FALSE

Inj ==
    /\ C.t = "inj" /\ k = 1
    /\ IsSkip(cid) \/
       /\ Chk("inj_panic", ~C.a_panic /\ ~C.b_panic, [a |-> C.a_panic, b |-> C.b_panic])
       /\ (C.a_panic \/ C.b_panic) \/
          /\ Chk("inj_differs", C.equal, [n |-> Len(C.plan)])
          \* after-code at a function's final end is dropped by design (C15)
          /\ LET kept == {i \in DOMAIN C.plan :
                            ~(C.plan[i].mode = "after"
                              /\ C.plan[i].instr = C.mods[C.plan[i].mod + 1].funcs[C.plan[i].func + 1] - 1)}
             IN Chk("inj_lost", C.probes_found >= Cardinality(kept), [found |-> C.probes_found])
    /\ k' = 2 /\ UNCHANGED <<cid, p, exh, dead>>

Ev == C.ev[k]
Step ==
    /\ C.t = "iter" /\ ~IsSkip(cid) /\ k <= Len(C.ev)
    /\ k' = k + 1 /\ UNCHANGED cid
    /\ IF dead THEN UNCHANGED <<p, exh, dead>>
       ELSE
       CASE Ev.op = "new" ->
              /\ Chk("new_panic", ~Ev.panic, [msg |-> Ev.msg])
              /\ p' = 1 /\ exh' = (Len(V) = 0) /\ dead' = Ev.panic
         [] Ev.op = "loc" ->
              /\ IF exh \/ Len(V) = 0 THEN TRUE        \* nothing to point at: not constrained
                 ELSE IF Ev.panic THEN Chk("loc_panic", FALSE, [msg |-> Ev.msg])
                 ELSE Chk("loc", /\ Ev.mod = V[p].mod /\ Ev.fid = V[p].fid /\ Ev.idx = V[p].idx
                                 /\ Ev.end = V[p].end /\ Ev.opk = V[p].opk,
                          [want |-> V[p], got |-> [mod |-> Ev.mod, fid |-> Ev.fid, idx |-> Ev.idx, end |-> Ev.end, opk |-> Ev.opk]])
              /\ UNCHANGED <<p, exh, dead>>
         [] Ev.op = "next" ->
              LET want == (~exh) /\ Len(V) > 0 /\ NextResult(V, p) IN
              /\ IF Ev.panic THEN Chk("next_panic", FALSE, [msg |-> Ev.msg])
                 ELSE Chk("next_result", Ev.some = want, [want |-> want, got |-> Ev.some, p |-> p])
              /\ dead' = (Ev.panic \/ Ev.some # want)      \* after a wrong answer the rest is not judged
              /\ p' = IF want THEN p + 1 ELSE p
              /\ exh' = (exh \/ ~want)
         [] Ev.op = "reset" ->
              /\ Chk("reset_panic", ~Ev.panic, [msg |-> IF Ev.panic THEN Ev.msg ELSE ""])
              /\ p' = ResetPos /\ exh' = (Len(V) = 0) /\ dead' = Ev.panic
         [] OTHER -> UNCHANGED <<p, exh, dead>>

Next == Inj \/ Step
Spec == Init /\ [][Next]_vars

PosOk == C.t = "iter" /\ ~IsSkip(cid) /\ Len(V) > 0 => p \in 1 .. Len(V)
=============================================================================
