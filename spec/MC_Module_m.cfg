SPECIFICATION Spec
CONSTANTS MaxOps = 3
 Camp = "m"
 MaxObs = 1
 MidEnc = FALSE
INVARIANTS TypeOK RetargetKills Emit
CHECK_DEADLOCK FALSE
