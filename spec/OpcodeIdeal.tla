---------------------------- MODULE OpcodeIdeal ----------------------------
(***************************************************************************)
(* C24: each helper appends exactly the instruction its name denotes, with *)
(* the immediates preserved bit-for-bit.  Immediates are drawn from value  *)
(* CLASSES; each class value is a pair (in, out): what is passed to the    *)
(* helper and how the independent decoder must render it.  Identity for    *)
(* everything except the unsigned-constant helpers (two's-complement       *)
(* reinterpretation); floats are compared by bit pattern.                  *)
(***************************************************************************)
EXTENDS Naturals, Sequences, FiniteSets, TLC, OpcodeTable

V(i, o) == [in |-> i, out |-> o]
Same(x) == V(x, x)

ClassVals(kind) ==
    CASE kind = "i32" -> <<Same("0"), Same("1"), Same("-1"), Same("-2147483648"), Same("2147483647")>>
      [] kind = "i64" -> <<Same("0"), Same("-1"), Same("-9223372036854775808"), Same("9223372036854775807")>>
      \* f32 / f64: `in` is the bit pattern; NaN with payload, -NaN, signalling NaN, +-0, inf, 1.0
      [] kind = "f32" -> <<V("2141192193", "Ieee32(2141192193)"), V("4290772992", "Ieee32(4290772992)"),
                           V("2139095041", "Ieee32(2139095041)"), V("0", "Ieee32(0)"),
                           V("2147483648", "Ieee32(2147483648)"), V("2139095040", "Ieee32(2139095040)"),
                           V("1065353216", "Ieee32(1065353216)")>>
      [] kind = "f64" -> <<V("9219994337134247937", "Ieee64(9219994337134247937)"),
                           V("18444492273895866368", "Ieee64(18444492273895866368)"),
                           V("9218868437227405313", "Ieee64(9218868437227405313)"), V("0", "Ieee64(0)"),
                           V("9223372036854775808", "Ieee64(9223372036854775808)"),
                           V("9218868437227405312", "Ieee64(9218868437227405312)"),
                           V("4607182418800017408", "Ieee64(4607182418800017408)")>>
      \* unsigned constants: reinterpreted as the signed constant with the same bits
      [] kind = "u32" -> <<Same("0"), Same("1"), V("2147483648", "-2147483648"), V("4294967295", "-1"),
                           V("4294967291", "-5"), Same("2147483647")>>
      [] kind = "u64" -> <<Same("0"), Same("1"), V("9223372036854775808", "-9223372036854775808"),
                           V("18446744073709551615", "-1"), Same("9223372036854775807")>>
      [] kind = "memarg" -> <<V("2,0,0", "MemArg { align: 2, offset: 0, memory: 0 }"),
                              V("0,4294967301,1", "MemArg { align: 0, offset: 4294967301, memory: 1 }"),
                              V("3,16,5", "MemArg { align: 3, offset: 16, memory: 5 }")>>
      [] kind = "heap" -> <<V("func", "Abstract { shared: false, ty: Func }"),
                            V("any", "Abstract { shared: false, ty: Any }"),
                            V("shared_eq", "Abstract { shared: true, ty: Eq }"),
                            V("noextern", "Abstract { shared: false, ty: NoExtern }"),
                            V("concrete2", "Concrete(Module(2))")>>
      \* block types: empty, a function type, and every value type the IR can name (DataType variant -> the decoder's
      \* rendering of the value type it denotes; written out by hand, independent of the library's conversion tables)
      [] kind = "bt" -> <<V("empty", "Empty"), V("i64", "Type(I64)"), V("func2", "FuncType(2)"),
                          V("I32", "Type(I32)"), V("F32", "Type(F32)"), V("F64", "Type(F64)"), V("V128", "Type(V128)"), V("FuncRef", "Type(Ref((ref func)))"), V("FuncRefNull", "Type(Ref(funcref))"), V("ExternRef", "Type(Ref((ref extern)))"), V("ExternRefNull", "Type(Ref(externref))"),
                          V("Any", "Type(Ref((ref any)))"), V("AnyNull", "Type(Ref(anyref))"), V("None", "Type(Ref((ref none)))"), V("NoneNull", "Type(Ref(nullref))"), V("NoExtern", "Type(Ref((ref noextern)))"), V("NoExternNull", "Type(Ref(nullexternref))"), V("NoFunc", "Type(Ref((ref nofunc)))"), V("NoFuncNull", "Type(Ref(nullfuncref))"),
                          V("Eq", "Type(Ref((ref eq)))"), V("EqNull", "Type(Ref(eqref))"), V("Struct", "Type(Ref((ref struct)))"), V("StructNull", "Type(Ref(structref))"), V("Array", "Type(Ref((ref array)))"), V("ArrayNull", "Type(Ref(arrayref))"), V("I31", "Type(Ref((ref i31)))"), V("I31Null", "Type(Ref(i31ref))"),
                          V("Exn", "Type(Ref((ref exn)))"), V("NoExn", "Type(Ref((ref noexn)))"), V("Cont", "Type(Ref((ref cont)))"), V("NoCont", "Type(Ref((ref nocont)))"), V("Module2", "Type(Ref((ref (module 2))))"), V("Module2Null", "Type(Ref((ref null (module 2))))")>>
      \* indices: the k-th index parameter gets a distinct value so that swapped arguments show
      [] kind = "idx" -> <<Same("3"), Same("5"), Same("7")>>

\* number of index parameters among the first k-1 parameters
IdxBefore(kinds, k) == Cardinality({j \in 1 .. k - 1 : kinds[j] = "idx"})
MaxVals(row) == IF \E k \in DOMAIN row.kinds : row.kinds[k] = "bt" THEN Len(ClassVals("bt")) ELSE 7
\* admissible selections for a helper: one class value per parameter (index parameters are fixed)
Selections(row) ==
    {s \in [DOMAIN row.kinds -> 1 .. MaxVals(row)] :
        \A k \in DOMAIN row.kinds :
            IF row.kinds[k] = "idx" THEN s[k] = IdxBefore(row.kinds, k) + 1
            ELSE s[k] <= Len(ClassVals(row.kinds[k]))}

RECURSIVE JoinFields(_, _, _)
JoinFields(row, sel, k) ==
    IF k > Len(row.fields) THEN ""
    ELSE (IF k > 1 THEN ", " ELSE "") \o row.fields[k] \o ": " \o ClassVals(row.kinds[k])[sel[k]].out
         \o JoinFields(row, sel, k + 1)
\* the Debug rendering of the wasmparser operator the helper must have appended
Expected(row, sel) ==
    IF Len(row.fields) = 0 THEN row.m ELSE row.m \o " { " \o JoinFields(row, sel, 1) \o " }"

RowOf(h) == Helpers[CHOOSE i \in DOMAIN Helpers : Helpers[i].h = h]
=============================================================================
