----------------------------- MODULE ContentTrace -----------------------------
(***************************************************************************)
(* Validates real programs of content additions against Content.tla: each  *)
(* returned index at the call, and the decoded output against the expected *)
(* lists at the end.  Total monitor.                                       *)
(***************************************************************************)
EXTENDS Content, Json, IOUtils
Cases == ndJsonDeserialize(IOEnv.TRACE)
VARIABLES cid, k, E
vars == <<cid, k, E>>
C == Cases[cid]
Range(s) == {s[i] : i \in DOMAIN s}

Chk(c, ok, d) == IF ok THEN TRUE ELSE PrintT(<<"VERDICT", ToJson([tr |-> C.id, c |-> c, d |-> d, k |-> k])>>)

FromObs(o) ==
    [types |-> Strips(o.types),
     l1 |-> o.funcs[1].locals, l2 |-> o.funcs[2].locals,
     p1 |-> Len(o.funcs[1].params), p2 |-> Len(o.funcs[2].params),
     \* (bases with imp2: import 1, of two parameters, is replaced by a built function with one f64 local)
     p0 |-> 2, l0 |-> <<"F64">>,
     funcs |-> <<>>, replaced |-> FALSE, converted |-> FALSE, rejected |-> FALSE,
     globals |-> o.globals, mems |-> o.mems, data |-> o.data, iglobals |-> <<>>, imems |-> <<>>,
     \* the base: imported function 0, local functions 1 and 2, one local global, one local memory
     fh |-> <<TRUE, FALSE, FALSE>>, gh |-> <<FALSE>>, mh |-> <<FALSE>>,
     exports |-> Range(o.exports), customs |-> o.customs]

Init == cid \in 1 .. Len(Cases) /\ k = 0 /\ E = <<>>
Start == k = 0 /\ k' = 1 /\ UNCHANGED cid
         /\ E' = IF "skip" \in DOMAIN C THEN <<>> ELSE FromObs(C.obs0)

Op == C.prog[k]
Step ==
    /\ k >= 1 /\ "skip" \notin DOMAIN C /\ k <= Len(C.prog)
    /\ k' = k + 1 /\ UNCHANGED cid
    /\ IF Op.panic
       THEN Chk("call_panicked", FALSE, [op |-> Op.op, msg |-> Op.msg, after_conv |-> E.converted])
            \* the rejected call may have half-updated the module: its final content is not judged
            /\ E' = [E EXCEPT !.rejected = TRUE]
       ELSE
       CASE Op.op = "add_local" ->
              /\ Chk("local_index", Op.ret = AddLocalRet(E, Op.f), [want |-> AddLocalRet(E, Op.f), got |-> Op.ret, via |-> Op.via])
              /\ E' = IF Op.via = "modifier_many" THEN AddLocals3(E, Op.f, Op.ty) ELSE AddLocal(E, Op.f, Op.ty)
         [] Op.op = "build" ->
              /\ Chk("builder_local_index", Op.ret.lids = BuiltLocalIds(Op), [want |-> BuiltLocalIds(Op), got |-> Op.ret.lids])
              /\ E' = [AddType(E, Op.req) EXCEPT !.funcs = Append(@, [f |-> BuiltFunc(Op), export |-> Op.ret.export, via |-> Op.via]),
                                                  !.replaced = @ \/ Op.via = "replace",
                                                  \* the harness exports every built function under a fresh name to observe its ID
                                                  !.exports = @ \cup {[name |-> Op.ret.export, kind |-> "Func", index |-> Op.ret.id]},
                                                  !.fh = IF Op.via = "replace" THEN @ ELSE Append(@, FALSE)]
              /\ (Op.via # "replace") => Chk("built_func_id", Op.ret.id = NextHandle(E, "f"), [want |-> NextHandle(E, "f"), got |-> Op.ret.id])
         [] Op.op = "conv" -> Chk("conv_refused", Op.ret, [f |-> Op.f]) /\ E' = [E EXCEPT !.converted = TRUE]
         [] Op.op = "add_type" ->
              /\ Chk("type_index", AddTypeRetOk(E, Op.req, Op.ret), [req |-> Op.req, got |-> Op.ret, ntypes |-> Len(E.types)])
              /\ E' = AddType(E, Op.req)
         [] Op.op = "add_global" ->
              /\ Chk("global_index", Op.ret = NextHandle(E, "g"), [want |-> NextHandle(E, "g"), got |-> Op.ret])
              /\ E' = AddGlobal(E, Op.req)
         [] Op.op = "add_iglobal" ->
              /\ Chk("global_index", Op.ret = NextHandle(E, "g"), [want |-> NextHandle(E, "g"), got |-> Op.ret])
              /\ E' = AddIGlobal(E, Op.req)
         [] Op.op = "add_ifunc" ->
              /\ Chk("func_index", Op.ret = NextHandle(E, "f"), [want |-> NextHandle(E, "f"), got |-> Op.ret])
              /\ E' = AddIFunc(E)
         [] Op.op = "mod_init" -> E' = ModInit(E, Op.g, Op.req)
         [] Op.op = "add_data" ->
              /\ Chk("data_index", Op.ret = Len(E.data), [want |-> Len(E.data), got |-> Op.ret])
              /\ E' = AddData(E, Op.req)
         [] Op.op = "add_memory" ->
              /\ Chk("memory_index", Op.ret = NextHandle(E, "m"), [want |-> NextHandle(E, "m"), got |-> Op.ret])
              /\ E' = IF Op.kind = "import" THEN AddIMemory(E, Op.req) ELSE AddMemory(E, Op.req)
         [] Op.op = "add_export" ->
              E' = AddExport(E, [name |-> "x" \o ToString(Op.n), kind |-> (IF Op.kind = "mem" THEN "Memory" ELSE "Func"), index |-> Op.id])
         [] Op.op = "cust_add" ->
              /\ Chk("custom_id", Op.ret = Len(E.customs), [want |-> Len(E.customs), got |-> Op.ret])
              /\ E' = CustAdd(E, Op.name, Op.bytes)
         [] Op.op = "cust_del" -> E' = CustDel(E, Op.id)
         [] Op.op = "cust_mod" ->
              /\ Chk("custom_mod_result", Op.ret = CustModOk(E, Op.id), [id |-> Op.id, got |-> Op.ret])
              /\ E' = CustMod(E, Op.id, Op.bytes)
         [] Op.op = "cust_del_name" ->
              /\ Chk("custom_lookup", Op.ret = CustFind(E, Op.name), [name |-> Op.name, want |-> CustFind(E, Op.name), got |-> Op.ret])
              /\ E' = IF CustFind(E, Op.name) >= 0 THEN CustDel(E, CustFind(E, Op.name)) ELSE E
         [] Op.op = "cust_mod_name" ->
              /\ Chk("custom_lookup", Op.ret = CustFind(E, Op.name), [name |-> Op.name, want |-> CustFind(E, Op.name), got |-> Op.ret])
              /\ E' = IF CustFind(E, Op.name) >= 0 THEN CustMod(E, CustFind(E, Op.name), Op.bytes) ELSE E
         [] OTHER -> UNCHANGED E

\* the decoded function the export `name` designates
FuncOfExport(o, name) ==
    LET xs == {x \in Range(o.exports) : x.name = name}
    IN IF xs = {} THEN <<>> ELSE
       LET idx == (CHOOSE x \in xs : TRUE).index
           fs == {f \in Range(o.funcs) : f.index = idx}
       IN IF fs = {} THEN <<>> ELSE <<CHOOSE f \in fs : TRUE>>

\* bases with imp2 serve one question only (C14 on a function that replaced an import whose numbers of parameters
\* and results differ): the output validates and the replaced function, now the last local one, has the locals asked for
Imp2 == "imp2" \in DOMAIN C.base /\ C.base.imp2
Final ==
    /\ k >= 1 /\ "skip" \notin DOMAIN C /\ k = Len(C.prog) + 1
    /\ k' = k + 1 /\ UNCHANGED <<cid, E>>
    /\ Chk("encode_panic", E.rejected \/ ~C.encode_panic, [msg |-> IF C.encode_panic THEN C.msg ELSE ""])
    /\ IF C.encode_panic \/ E.rejected \/ Imp2 THEN TRUE ELSE
       LET o == C.obs IN
       /\ Chk("invalid", C.valid, [err |-> C.err])
       /\ Chk("second_encode_differs", ("same2" \notin DOMAIN C) \/ C.same2, [x |-> 0])
       /\ Chk("types", Strips(o.types) = E.types, [want |-> Len(E.types), got |-> Len(o.types)])
       /\ Chk("locals", o.funcs[1].locals = E.l1 /\ (E.converted \/ o.funcs[2].locals = E.l2),
              [l1 |-> o.funcs[1].locals, want1 |-> E.l1, want2 |-> E.l2])
       /\ Chk("globals", ItemsOk(E, o.globals, E.globals), [want |-> E.globals, got |-> o.globals, gh |-> E.gh, fh |-> E.fh])
       /\ Chk("memories", o.mems = E.mems, [want |-> E.mems, got |-> o.mems])
       /\ Chk("imported_memories", o.impmems = E.imems, [want |-> E.imems, got |-> o.impmems])
       /\ Chk("imported_globals", o.impglobals = E.iglobals, [want |-> E.iglobals, got |-> o.impglobals])
       /\ Chk("data", ItemsOk(E, o.data, E.data), [want |-> E.data, got |-> o.data, mh |-> E.mh])
       \* replacing the import renumbers the functions: then only name and kind of exports are compared
       /\ \A x \in E.exports :
             Chk("exports", \E y \in Range(o.exports) :
                             y.name = x.name /\ y.kind = x.kind /\ (E.replaced \/ E.converted \/ y.index = FinalIdx(E, SpOfKind(x.kind), x.index)),
                 [name |-> x.name, kind |-> x.kind, handle |-> x.index, want |-> FinalIdx(E, SpOfKind(x.kind), x.index),
                  got |-> {y.index : y \in {z \in Range(o.exports) : z.name = x.name}}])
       /\ Chk("export_count", Len(o.exports) = Cardinality(E.exports), [want |-> Cardinality(E.exports), got |-> Len(o.exports)])
       /\ Chk("customs", o.customs = E.customs, [want |-> E.customs, got |-> o.customs])
       /\ Chk("func_count", Len(o.funcs) = (IF E.converted THEN 1 ELSE 2) + Len(E.funcs), [want |-> (IF E.converted THEN 1 ELSE 2) + Len(E.funcs), got |-> Len(o.funcs)])
       /\ \A i \in DOMAIN E.funcs :
            LET b == E.funcs[i]
                got == FuncOfExport(o, b.export)
            IN IF got = <<>> THEN Chk("built_func_missing", FALSE, [export |-> b.export])
               ELSE LET g == got[1] IN
                    Chk("built_func", /\ g.params = b.f.params /\ g.results = b.f.results /\ g.locals = b.f.locals
                                      /\ g.body = b.f.body /\ (b.via = "replace" \/ g.name = b.f.name),
                        [want |-> b.f, got |-> [params |-> g.params, results |-> g.results, locals |-> g.locals, body |-> g.body, name |-> g.name]])
       /\ E.replaced => Chk("import_not_removed", o.nimp = CountImp(E.fh, Len(E.fh)) - 1, [nimp |-> o.nimp])
       /\ E.converted => Chk("converted_not_import", o.nimp = CountImp(E.fh, Len(E.fh)) + 1, [nimp |-> o.nimp])
       /\ (~E.replaced /\ ~E.converted) => Chk("import_count", o.nimp = CountImp(E.fh, Len(E.fh)), [want |-> CountImp(E.fh, Len(E.fh)), got |-> o.nimp])

FinalImp2 ==
    /\ k >= 1 /\ "skip" \notin DOMAIN C /\ k = Len(C.prog) + 1 /\ Imp2
    /\ k' = k + 2 /\ UNCHANGED <<cid, E>>
    /\ IF C.encode_panic \/ E.rejected THEN TRUE ELSE
       LET o == C.obs IN
       /\ Chk("invalid", C.valid, [err |-> C.err])
       /\ Chk("locals", o.funcs[Len(o.funcs)].locals = E.l0 /\ o.funcs[1].locals = E.l1,
              [l0 |-> o.funcs[Len(o.funcs)].locals, want0 |-> E.l0, l1 |-> o.funcs[1].locals, want1 |-> E.l1])

Next == Start \/ Step \/ Final \/ FinalImp2
Spec == Init /\ [][Next]_vars
=============================================================================
