----------------------------- MODULE MC_ExecRef -----------------------------
(***************************************************************************)
(* Self-test of the reference-carrying branch clauses of Exec.tla          *)
(* (br_on_null, br_on_non_null, br_on_cast, br_on_cast_fail; DESIGN 10.1). *)
(* Closed programs are run to completion with XStep; TLC evaluates the     *)
(* ASSUMEs.  This is a model-level check only: no alphabet item of         *)
(* MC_Lower emits bronn / brc / brcf yet, so nothing here is bound to the  *)
(* code and no property is decided by it.                                  *)
(*   block(r=1) ; R ; B 0 ; [rfunc if the fall-through is empty] ; end ;   *)
(*   lset 0 ; op 1 ; end                                                   *)
(* local 0 afterwards tells which reference reached the end of the block.  *)
(***************************************************************************)
EXTENDS Exec

RECURSIVE RunX(_, _, _, _)
RunX(m, code, jt, n) ==
    IF m.st # "run" \/ n = 0 THEN m ELSE RunX(XStep(m, code, jt, 0, 0), code, jt, n - 1)

Prog(r, b, fill) ==
    <<[o |-> "block", r |-> 1], [o |-> r], [o |-> b, d |-> 0]>>
    \o (IF fill THEN <<[o |-> "rfunc"]>> ELSE <<>>)
    \o <<[o |-> "end"], [o |-> "lset", x |-> 0], [o |-> "op", k |-> 1], [o |-> "end"]>>

Final(r, b, fill) == LET code == Prog(r, b, fill) IN RunX(NewMachine, code, JT(code), 40)

\* every program is well nested, terminates by returning, and executes op 1 exactly once
ASSUME \A r \in {"rnull", "rfunc"}, b \in {"bronn", "brc", "brcf"} :
          LET f == Final(r, b, b = "bronn") IN
          /\ WellNested(Prog(r, b, b = "bronn"))
          /\ f.st = "ret" /\ Len(f.vs) = 0
          /\ NonProbe(f.ev) = <<[e |-> "op", k |-> 1], [e |-> "ret", v |-> -1]>>
\* br_on_non_null: a non-null reference travels with the branch; a null one is dropped and the filler arrives
ASSUME LocOf(Final("rfunc", "bronn", TRUE), 0) = 1 /\ LocOf(Final("rnull", "bronn", TRUE), 0) = 1
\* br_on_cast / br_on_cast_fail never change the reference, whichever way they go
ASSUME \A b \in {"brc", "brcf"} : LocOf(Final("rfunc", b, FALSE), 0) = 1 /\ LocOf(Final("rnull", b, FALSE), 0) = 0
\* the branch is taken exactly when the clause says so: with a trap behind the branch, only the fall-through traps
TrapProg(r, b) == <<[o |-> "block", r |-> 1], [o |-> r], [o |-> b, d |-> 0], [o |-> "unreachable"], [o |-> "end"],
                    [o |-> "drop"], [o |-> "end"]>>
Taken(r, b) == LET code == TrapProg(r, b) IN RunX(NewMachine, code, JT(code), 40).st = "ret"
ASSUME Taken("rfunc", "bronn") /\ ~Taken("rnull", "bronn")
ASSUME Taken("rfunc", "brc")   /\ ~Taken("rnull", "brc")
ASSUME ~Taken("rfunc", "brcf") /\ Taken("rnull", "brcf")
ASSUME ~Taken("rfunc", "bron")      \* br_on_null, the clause that is bound (ABrOn in MC_Lower)
\* the targets are seen by the plan generator's label analysis
ASSUME \A b \in {"bron", "bronn", "brc", "brcf"} : TargetKinds(TrapProg("rnull", b), 3) = {"block"}
=============================================================================
