---------------------------- MODULE MC_Module ----------------------------
(***************************************************************************)
(* Bounded-exhaustive generator of edit histories for the module family.   *)
(* It drives the Ideal operators of ModuleIdeal (so only meaningful edits  *)
(* are enabled: delete a live entity, convert a live local function, ...)  *)
(* and prints every reachable history as one REPLAY line, which the        *)
(* harness executes against the real API (spec -> code direction).         *)
(*                                                                         *)
(* Token rule shared with the harness: the n-th entity ever requested in a *)
(* space (base entities first, then every add / convert / replace attempt, *)
(* successful or not) gets token n.                                        *)
(***************************************************************************)
EXTENDS ModuleIdeal, Json

CONSTANTS MaxOps,        \* history length bound
          Camp,          \* "f" | "g" | "m" : which index space the campaign edits
          MaxObs,        \* cap on observer ops (inject / add_export / set_name) per history
          MidEnc         \* TRUE: also generate histories with an intermediate encode (informational
                         \* campaign: the property statements do not cover edits after an encode)

VARIABLES S, hist, ntok, shape, nobs
vars == <<S, hist, ntok, shape, nobs>>

Count(str, c) == Cardinality({i \in 1 .. Len(str) : str[i] = c})

\* base shapes per campaign; `imps` is the import section as a sequence of kinds
ShapesF == {
  [imps |-> <<"f","f">>,         lf |-> 2, lg |-> 0, lm |-> 0, feat |-> <<"exports","names">>],
  [imps |-> <<"m","f","g","f">>, lf |-> 2, lg |-> 1, lm |-> 0, feat |-> <<"exports","tail","gref","names">>],
  [imps |-> <<"f">>,             lf |-> 2, lg |-> 0, lm |-> 0, feat |-> <<"elem","start","tinit">>],
  [imps |-> <<>>,                lf |-> 2, lg |-> 0, lm |-> 0, feat |-> <<"exports","names","start">>],
  [imps |-> <<"f">>,             lf |-> 1, lg |-> 0, lm |-> 0, feat |-> <<"exports","duptypes">>],
  [imps |-> <<"g","f">>,         lf |-> 0, lg |-> 0, lm |-> 0, feat |-> <<"exports">>],
  \* "spare": nothing refers to the entity at index 0 of a space, so deleting it is a clean deletion that moves all others
  [imps |-> <<"g","f","f">>,     lf |-> 2, lg |-> 0, lm |-> 0, feat |-> <<"exports","names","spare">>] }
ShapesG == {
  [imps |-> <<"g","g">>,     lf |-> 1, lg |-> 2, lm |-> 1, feat |-> <<"exports","names","gg","data","doff">>],
  [imps |-> <<"f","g">>,     lf |-> 2, lg |-> 1, lm |-> 0, feat |-> <<"exports","gg","elem","eoff">>],
  [imps |-> <<>>,            lf |-> 1, lg |-> 0, lm |-> 0, feat |-> <<"exports">>],
  [imps |-> <<>>,            lf |-> 1, lg |-> 2, lm |-> 0, feat |-> <<"names">>],
  [imps |-> <<"f","g","g">>, lf |-> 1, lg |-> 1, lm |-> 1, feat |-> <<"exports","gg","data","doff","spare">>] }
ShapesM == {
  [imps |-> <<"m","m">>,     lf |-> 1, lg |-> 0, lm |-> 1, feat |-> <<"exports","names","data","atomics","allmem">>],
  [imps |-> <<"f","m">>,     lf |-> 2, lg |-> 0, lm |-> 2, feat |-> <<"exports","data","atomics">>],
  [imps |-> <<>>,            lf |-> 1, lg |-> 0, lm |-> 1, feat |-> <<"data","atomics">>],
  [imps |-> <<"m">>,         lf |-> 1, lg |-> 0, lm |-> 0, feat |-> <<"exports","atomics">>],
  [imps |-> <<"f","m","m">>, lf |-> 1, lg |-> 0, lm |-> 2, feat |-> <<"exports","data","atomics","spare">>] }
Shapes == CASE Camp = "f" -> ShapesF [] Camp = "g" -> ShapesG [] Camp = "m" -> ShapesM

Has(sh, f) == \E i \in DOMAIN sh.feat : sh.feat[i] = f

\* number of base entities per space (same construction order as harness Fam::base)
NImp(sh, sp)  == Cardinality({i \in DOMAIN sh.imps : sh.imps[i] = sp})
NBase(sh, sp) ==
    CASE sp = "f" -> NImp(sh, "f") + sh.lf
      [] sp = "g" -> NImp(sh, "g") + sh.lg
                     + (IF Has(sh, "gg") /\ NImp(sh, "g") > 0 THEN 1 ELSE 0)
                     + (IF Has(sh, "gref") /\ NImp(sh, "f") + sh.lf > 0 THEN 1 ELSE 0)
      [] sp = "m" -> NImp(sh, "m") + sh.lm

BaseEnt(sh) ==
    [k \in UNION {{<<sp, t>> : t \in 0 .. NBase(sh, sp) - 1} : sp \in Spaces} |->
        [kind |-> IF k[2] < NImp(sh, k[1]) THEN "I" ELSE "L", live |-> TRUE, org |-> "base"]]

Init ==
    /\ shape \in Shapes
    /\ S = [I_Empty EXCEPT !.ent = BaseEnt(shape)]
    /\ hist = <<>>
    /\ ntok = [sp \in Spaces |-> NBase(shape, sp)]
    /\ nobs = 0

Keys(sp)      == {k \in DOMAIN S.ent : k[1] = sp}
LiveOf(sp, kd) == {k \in LiveKeys(S, sp) : S.ent[k].kind = kd}

\* const-initialised local globals only (gg / gref globals are not const-initialised)
Do(op, S2, bump) ==
    /\ Len(hist) < MaxOps
    /\ hist' = Append(hist, op)
    /\ S' = S2
    /\ ntok' = [ntok EXCEPT ![Camp] = @ + bump]
    /\ UNCHANGED shape

Structural == nobs' = nobs
Observer   == nobs < MaxObs /\ nobs' = nobs + 1

AddLocal ==
    /\ Structural
    /\ LET op == CASE Camp = "f" -> [op |-> "add_local_func"]
                   [] Camp = "g" -> [op |-> "add_global"]
                   [] Camp = "m" -> [op |-> "add_local_memory"]
       IN Do(op, I_AddEnt(S, <<Camp, ntok[Camp]>>, "L", "add"), 1)

AddGlobalViaIter ==
    /\ Camp = "g" /\ Structural /\ shape.lf > 0
    /\ Do([op |-> "add_global", via |-> "iter"], I_AddEnt(S, <<"g", ntok["g"]>>, "L", "add"), 1)

AddImport ==
    /\ Structural
    /\ LET op == CASE Camp = "f" -> [op |-> "add_import_func"]
                   [] Camp = "g" -> [op |-> "add_imported_global"]
                   [] Camp = "m" -> [op |-> "add_import_memory"]
       IN Do(op, I_AddEnt(S, <<Camp, ntok[Camp]>>, "I", "add"), 1)

DeleteEnt ==
    /\ Structural
    /\ \E k \in LiveKeys(S, Camp) :
         Do([op |-> "delete", sp |-> Camp, tok |-> k[2]], I_Delete(S, k), 0)

ConvL2I ==
    /\ Camp = "f" /\ Structural
    /\ \E k \in LiveOf("f", "L") :
         Do([op |-> "conv_l2i", tok |-> k[2]],
            I_Retarget(S, k, <<"f", ntok["f"]>>, "I", "conv"), 1)

ReplaceImport ==
    /\ Camp = "f" /\ Structural
    /\ \E k \in LiveOf("f", "I") :
         Do([op |-> "replace_import", tok |-> k[2]],
            I_Retarget(S, k, <<"f", ntok["f"]>>, "L", "repl"), 1)

\* observers: new reference sites / names.  The Ideal state they change (want, nm)
\* is reconstructed by the trace spec from the real calls; here they only extend
\* the history.  Targets may be dead (a dangling reference must make encode loud).
SiteKinds == CASE Camp = "f" -> {"call"}
               [] Camp = "g" -> {"global_get"}
               [] Camp = "m" -> {"mem_load", "atomic_rmw", "mem_copy2"}   \* mem_copy2: memory.copy into it from another memory

InjectSite ==
    /\ Observer
    /\ \E owner \in LiveOf("f", "L"), k \in Keys(Camp), sk \in SiteKinds :
         /\ S.ent[owner].org \in {"base", "add"}
         /\ Do([op |-> "inject", sk |-> sk, sp |-> Camp, tok |-> k[2], owner |-> owner[2]], S, 0)

AddExport ==
    /\ Observer /\ Camp \in {"f", "m"}
    /\ \E k \in LiveKeys(S, Camp) :
         Do([op |-> "add_export", sp |-> Camp, tok |-> k[2]], S, 0)

DeleteExport ==
    /\ Observer /\ Has(shape, "exports")
    /\ \E k \in {x \in Keys(Camp) : S.ent[x].org = "base"} :
         Do([op |-> "delete_export", sp |-> Camp, tok |-> k[2]], S, 0)

SetName ==
    /\ Observer /\ Camp = "f"
    /\ \E k \in LiveKeys(S, "f"), via \in {"module", "functions", "imports"} :
         /\ (via = "functions") => S.ent[k].kind = "L"
         /\ (via = "imports")   => S.ent[k].kind = "I"
         /\ Do([op |-> "set_name", tok |-> k[2], via |-> via], S, 0)

ModInit ==
    /\ Observer /\ Camp = "g"
    /\ \E k \in LiveOf("g", "L") :
         /\ k[2] >= NImp(shape, "g") /\ (k[2] < NImp(shape, "g") + shape.lg \/ S.ent[k].org = "add")
         /\ Do([op |-> "mod_init", tok |-> k[2], to |-> "const"], S, 0)

\* an intermediate encode: edits after an encode are part of the history space (C05)
MidEncode ==
    /\ MidEnc /\ Structural /\ hist # <<>> /\ hist[Len(hist)].op # "encode"
    /\ Cardinality({i \in DOMAIN hist : hist[i].op = "encode"}) = 0
    /\ Do([op |-> "encode"], S, 0)

Next == \/ AddLocal \/ AddGlobalViaIter \/ AddImport \/ DeleteEnt \/ ConvL2I \/ ReplaceImport
        \/ InjectSite \/ AddExport \/ DeleteExport \/ SetName \/ ModInit \/ MidEncode

Spec == Init /\ [][Next]_vars

\* ---- properties of the Ideal model itself (sanity of the oracle) ----------
TypeOK ==
    /\ \A k \in DOMAIN S.ent : S.ent[k].kind \in {"I", "L"} /\ k[2] < ntok[k[1]]
    /\ Len(hist) <= MaxOps
\* a retargeted entity never stays live; tokens are never reused
RetargetKills ==
    \A i \in DOMAIN hist :
        hist[i].op \in {"conv_l2i", "replace_import"} => ~Live(S, <<"f", hist[i].tok>>)

\* ---- behaviour dump --------------------------------------------------------
Emit == PrintT(<<"REPLAY", ToJson([shape |-> shape, ops |-> Append(hist, [op |-> "encode"])])>>)
=============================================================================
