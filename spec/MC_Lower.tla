----------------------------- MODULE MC_Lower -----------------------------
(***************************************************************************)
(* Bounded-exhaustive generator for the lowering family: every well-nested *)
(* function body over the Exec alphabet up to MaxLen instructions and      *)
(* MaxDepth nesting, combined with every applicable instrumentation plan   *)
(* of up to MaxPlan entries.  Each (body, plan) is printed as one REPLAY   *)
(* line and executed by the harness through the real injection APIs.       *)
(*                                                                         *)
(* Bodies are valid by construction: the operand stack is empty at every   *)
(* instruction boundary except between a decision cond(k) and its consumer *)
(* (if / br_if / br_table), which are generated as one step.  After an      *)
(* unconditional transfer (br, br_table, return, unreachable) only the      *)
(* closing else/end of the enclosing construct may follow (no dead code).  *)
(***************************************************************************)
EXTENDS ProbeIdeal, Json

CONSTANTS MaxLen, MaxDepth, MaxPlan, MaxLenPairs

VARIABLES body,   \* instructions so far
          stk,    \* open constructs: "block" | "loop" | "if" | "ifelse"
          dead,   \* TRUE after an unconditional transfer
          nop,    \* number of op() used (op 0 may trap)
          ncond,  \* number of cond() used
          plan,   \* chosen plan (once the body is complete)
          done    \* body complete
vars == <<body, stk, dead, nop, ncond, plan, done>>

Init == body = <<>> /\ stk = <<>> /\ dead = FALSE /\ nop = 0 /\ ncond = 0 /\ plan = <<>> /\ done = FALSE

Room(n) == Len(body) + n + Len(stk) + 1 <= MaxLen     \* leave room for the closing ends
Depth   == Len(stk)

Add(instrs, stk2, dead2, dop, dcond) ==
    /\ ~done
    /\ body' = body \o instrs
    /\ stk' = stk2 /\ dead' = dead2
    /\ nop' = nop + dop /\ ncond' = ncond + dcond
    /\ UNCHANGED <<plan, done>>

Cond == [o |-> "cond", k |-> ncond]

AOp    == ~dead /\ Room(1) /\ nop < 4 /\ Add(<<[o |-> "op", k |-> nop]>>, stk, FALSE, 1, 0)
ABlock == ~dead /\ Room(2) /\ Depth < MaxDepth /\ Add(<<[o |-> "block", r |-> 0]>>, Append(stk, "block"), FALSE, 0, 0)
ATry   == ~dead /\ Room(2) /\ Depth < MaxDepth /\ Add(<<[o |-> "try", r |-> 0]>>, Append(stk, "block"), FALSE, 0, 0)
ALoop  == ~dead /\ Room(2) /\ Depth < MaxDepth /\ Add(<<[o |-> "loop", r |-> 0]>>, Append(stk, "loop"), FALSE, 0, 0)
AIf    == ~dead /\ Room(3) /\ Depth < MaxDepth /\ ncond < 3
          /\ Add(<<Cond, [o |-> "if", r |-> 0]>>, Append(stk, "if"), FALSE, 0, 1)
AElse  == Depth > 0 /\ stk[Depth] = "if" /\ Room(1)
          /\ Add(<<[o |-> "else"]>>, [stk EXCEPT ![Depth] = "ifelse"], FALSE, 0, 0)
AEnd   == ~done /\ Depth > 0
          /\ Add(<<[o |-> "end"]>>, SubSeq(stk, 1, Depth - 1), FALSE, 0, 0)
ABr    == ~dead /\ Room(1) /\ \E d \in 0 .. Depth : Add(<<[o |-> "br", d |-> d]>>, stk, TRUE, 0, 0)
ABrIf  == ~dead /\ Room(2) /\ ncond < 3
          /\ \E d \in 0 .. Depth : Add(<<Cond, [o |-> "br_if", d |-> d]>>, stk, FALSE, 0, 1)
ABrTable ==
    ~dead /\ Room(2) /\ ncond < 3
    /\ \E a \in 0 .. Depth, b \in 0 .. Depth, two \in BOOLEAN :
         /\ two => a = b            \* <<a, a>> default a: three arms to one label
         /\ Add(<<Cond, [o |-> "br_table", ds |-> IF two THEN <<a, a>> ELSE <<a>>, d |-> b]>>, stk, TRUE, 0, 1)
\* a reference (null or not), br_on_null to a label, and the drop of the reference left by the fall-through
ABrOn  == ~dead /\ Room(3)
          /\ \E d \in 0 .. Depth, r \in {"rnull", "rfunc"} :
                Add(<<[o |-> r], [o |-> "bron", d |-> d], [o |-> "drop"]>>, stk, FALSE, 0, 0)
ARet   == ~dead /\ Room(1) /\ Add(<<[o |-> "return"]>>, stk, TRUE, 0, 0)
AUnr   == ~dead /\ Room(1) /\ Add(<<[o |-> "unreachable"]>>, stk, TRUE, 0, 0)
AThrow == ~dead /\ Room(1) /\ Add(<<[o |-> "throw"]>>, stk, TRUE, 0, 0)
ARCall == ~dead /\ Room(1) /\ Add(<<[o |-> "rcall", k |-> 3]>>, stk, TRUE, 0, 0)
ARCallI == ~dead /\ Room(2) /\ Add(<<[o |-> "const", v |-> 0], [o |-> "rcalli"]>>, stk, TRUE, 0, 0)

AFinish ==       \* the function's final end
    /\ ~done /\ Depth = 0 /\ Len(body) + 1 <= MaxLen
    /\ body' = Append(body, [o |-> "end"])
    /\ done' = TRUE
    /\ UNCHANGED <<stk, dead, nop, ncond, plan>>

---------------------------------------------------------------------------
\* plans
jt == JT(body)

Targets(i) == TargetKinds(body, i)

ModesAt(i) ==
    LET o == body[i].o IN
    IF o = "try" THEN {} ELSE
    {"before", "after"}
    \* replacing/removing the function's final end is accepted but must have no effect (C15)
    \cup (IF o \in {"op", "nop"} \/ i = Len(body) THEN {"alternate", "empty_alternate"} ELSE {})
    \cup (IF o \in {"block", "loop", "if", "else"} THEN {"block_entry", "block_exit", "block_alt"} ELSE {})
    \* removing an `if` without consuming its condition is a misuse (invalid by the caller's doing)
    \cup (IF o \in {"block", "loop", "else"} THEN {"empty_block_alt"} ELSE {})
    \cup (IF o \in {"block", "if", "else"} THEN {"semantic_after"} ELSE {})
    \cup (IF o \in {"br", "br_if", "br_table", "bron"} /\ "loop" \notin Targets(i) /\ "try" \notin Targets(i) THEN {"semantic_after"} ELSE {})

CodeFor(p, i, mode) ==
    IF mode \in {"empty_alternate", "empty_block_alt"} THEN <<>>
    ELSE IF mode = "block_alt" /\ i >= 1 /\ body[i].o = "if"
    THEN <<[o |-> "drop"], [o |-> "probe", p |-> p]>>       \* consume the condition of the removed if
    ELSE <<[o |-> "probe", p |-> p]>>

Entry(p, i, mode, api) ==
    [p |-> p, site |-> i - 1, mode |-> mode, api |-> api, code |-> CodeFor(p, i, mode), acc |-> TRUE]

Apis(mode, first) ==
    \* iter/mod: ModuleIterator / FunctionModifier at the location; *_at: their inject_at; comp/comp_at: the same
    \* through a ComponentIterator over a component that holds the module
    IF mode \in {"func_entry", "func_exit"} THEN {"iter", "mod", "comp"}
    \* comp_loc: a ComponentIterator that stays on another module (a copy in front) and addresses the site by an
    \* explicit Location naming the module under test
    ELSE IF mode \in {"empty_alternate", "empty_block_alt"} THEN {"iter", "mod", "comp", "comp_loc"}
    ELSE IF first THEN {"iter", "mod", "iter_at", "mod_at", "comp", "comp_at", "comp_loc"} ELSE {"iter"}

\* instruction-level choices restricted to applicable modes
ChoicesAt(p, first) ==
    UNION {UNION {{Entry(p, i, m, a) : a \in Apis(m, first)} : m \in ModesAt(i)} : i \in 1 .. Len(body)}
    \cup UNION {{[Entry(p, 0, m, a) EXCEPT !.site = -1] : a \in Apis(m, first)} : m \in {"func_entry", "func_exit"}}

APlan1 ==
    /\ done /\ plan = <<>>
    /\ \E e \in ChoicesAt(0, TRUE) : plan' = <<e>>
    /\ UNCHANGED <<body, stk, dead, nop, ncond, done>>

\* two injections interact when they sit on the same instruction or one sits inside the
\* construct the other is attached to (e.g. a probe on an `if` and one on a branch to it)
Related(a, b) ==
    \/ a.site = b.site
    \/ /\ a.site >= 0 /\ b.site >= 0
       /\ \/ body[a.site + 1].o \in Openers /\ b.site > a.site /\ b.site + 1 <= jt[a.site + 1].end
          \/ body[b.site + 1].o \in Openers /\ a.site > b.site /\ a.site + 1 <= jt[b.site + 1].end

APlan2 ==
    /\ done /\ Len(plan) = 1 /\ MaxPlan >= 2
    /\ plan[1].api = "iter"
    /\ \E e \in ChoicesAt(1, FALSE)
              \* ... or the withdrawal (clear_instr_at) of what the first entry injected, through either iterator kind
              \cup (IF plan[1].mode \in {"before", "after", "alternate"}
                    THEN {[p |-> 1, site |-> plan[1].site, mode |-> "clear", what |-> plan[1].mode, api |-> a, code |-> <<>>, acc |-> TRUE]
                             : a \in {"iter", "mod", "comp"}}
                    ELSE {}) :
         /\ Len(body) <= MaxLenPairs
            \/ e.mode = "clear"
            \/ (Related(plan[1], e) /\ plan[1].mode \in SpecialModes /\ e.mode \in SpecialModes
                /\ {plan[1].mode, e.mode} \cap {"block_alt", "empty_block_alt"} = {})
            \* two block-alternates, one nested in the region of the other (the outer removal takes the inner with it)
            \/ (Related(plan[1], e) /\ e.site # plan[1].site
                /\ {plan[1].mode, e.mode} \subseteq {"block_alt", "empty_block_alt"})
         /\ <<e.site, e.mode>> # <<plan[1].site, plan[1].mode>> \/ e.mode \in {"before", "after", "semantic_after"}
         \* (a replacement and a removal of the same instruction are generated in both orders: the last request decides)
         /\ plan' = Append(plan, e)
    /\ UNCHANGED <<body, stk, dead, nop, ncond, done>>

Next == AOp \/ ABlock \/ ATry \/ ALoop \/ AIf \/ AElse \/ AEnd \/ ABr \/ ABrIf \/ ABrTable \/ ABrOn \/ ARet \/ AUnr \/ AThrow \/ ARCall \/ ARCallI
        \/ AFinish \/ APlan1 \/ APlan2
Spec == Init /\ [][Next]_vars

\* ---- properties of the generator / of the ideal semantics itself ------------
BodyOk == done => WellNested(body)
\* the ideal splice of a plan that injects nothing is the identity
SpliceIdentity == done => Splice(body, JT(body), <<>>) = body

EmitCase == (done /\ plan # <<>>) =>
          PrintT(<<"REPLAY", ToJson([arity |-> 0, nlocals |-> 0, body |-> body, plan |-> plan, src |-> "mc"])>>)
=============================================================================
