------------------------------ MODULE CompNest ------------------------------
(***************************************************************************)
(* Component nesting (C27).                                                *)
(*                                                                         *)
(* A component is a TREE: a sequence of items, an item being a core module *)
(* M(id), a type definition T(id), a custom section X(id) or a nested      *)
(* component C(kids).  wasmparser's `parse_all` yields the payloads of     *)
(* nested modules and components inline, as one flat STREAM; Flatten gives *)
(* that stream.  The Ideal round trip is the identity on trees.            *)
(*                                                                         *)
(* ParseNew transcribes Component::parse_comp as it is now (after the fix  *)
(* of the nesting stack): a component parses its direct items, recurses on *)
(* the byte range of each nested component, and then SKIPS the nested      *)
(* payloads that the flat stream also delivers, counting ModuleSection /   *)
(* ComponentSection / End at every level.  ParseOld transcribes the former *)
(* algorithm (a stack shared with the child that only the child's direct   *)
(* children were pushed on): TLC shows it wrong from nesting depth 3 on.   *)
(***************************************************************************)
EXTENDS Naturals, Integers, Sequences, FiniteSets, TLC, Json

CONSTANTS MaxItems, MaxDepth

\* ---- trees and their payload streams -------------------------------------------
RECURSIVE Flatten(_)
FlattenItem(it) ==
    CASE it.k = "M" -> <<[t |-> "MS", id |-> it.id], [t |-> "V"], [t |-> "End"]>>
      [] it.k = "C" -> <<[t |-> "CS"]>> \o Flatten(it.kids)
      [] OTHER      -> <<[t |-> it.k, id |-> it.id]>>
RECURSIVE FlattenItems(_, _)
FlattenItems(items, i) == IF i > Len(items) THEN <<>> ELSE FlattenItem(items[i]) \o FlattenItems(items, i + 1)
Flatten(items) == <<[t |-> "V"]>> \o FlattenItems(items, 1) \o <<[t |-> "End"]>>

\* the payloads of the nested component whose ComponentSection token is at position i
\* (what `unchecked_range` hands to the recursive call): up to and including its End
RECURSIVE MatchEnd(_, _, _)
MatchEnd(s, j, d) ==
    IF s[j].t \in {"MS", "CS"} THEN MatchEnd(s, j + 1, d + 1)
    ELSE IF s[j].t = "End" THEN (IF d = 1 THEN j ELSE MatchEnd(s, j + 1, d - 1))
    ELSE MatchEnd(s, j + 1, d)
Sub(s, i) == SubSeq(s, i + 1, MatchEnd(s, i + 1, 1))

\* ---- the parser as implemented now ------------------------------------------------
RECURSIVE ParseNew(_)
RECURSIVE ScanNew(_, _, _, _)
ScanNew(s, i, depth, acc) ==
    IF i > Len(s) THEN acc
    ELSE LET tk == s[i] IN
         IF depth > 0
         THEN ScanNew(s, i + 1,
                      IF tk.t \in {"MS", "CS"} THEN depth + 1 ELSE IF tk.t = "End" THEN depth - 1 ELSE depth,
                      acc)
         ELSE CASE tk.t = "MS" -> ScanNew(s, i + 1, 1, Append(acc, [k |-> "M", id |-> tk.id]))
                [] tk.t = "CS" -> ScanNew(s, i + 1, 1, Append(acc, [k |-> "C", kids |-> ParseNew(Sub(s, i))]))
                [] tk.t \in {"T", "X"} -> ScanNew(s, i + 1, 0, Append(acc, [k |-> tk.t, id |-> tk.id]))
                [] OTHER -> ScanNew(s, i + 1, 0, acc)          \* Version, own End
ParseNew(s) == ScanNew(s, 1, 0, <<>>)

\* ---- the former parser (shared stack): kept to document the defect ----------------
\* result: [tree, pushed] where pushed = number of nested sections this level pushed on its parent's stack
RECURSIVE ParseOld(_)
RECURSIVE ScanOld(_, _, _, _, _)
ScanOld(s, i, depth, acc, pushed) ==
    IF i > Len(s) THEN [tree |-> acc, pushed |-> pushed]
    ELSE LET tk == s[i]
             d1 == IF tk.t = "End" /\ depth > 0 THEN depth - 1 ELSE depth     \* `End` pops, nothing else does
         IN IF d1 > 0 THEN ScanOld(s, i + 1, d1, acc, pushed)
            ELSE CASE tk.t = "MS" -> ScanOld(s, i + 1, 1, Append(acc, [k |-> "M", id |-> tk.id]), pushed + 1)
                   [] tk.t = "CS" -> LET ch == ParseOld(Sub(s, i))
                                     IN ScanOld(s, i + 1, 1 + ch.pushed,
                                                Append(acc, [k |-> "C", kids |-> ch.tree]), pushed + 1)
                   [] tk.t \in {"T", "X"} -> ScanOld(s, i + 1, 0, Append(acc, [k |-> tk.t, id |-> tk.id]), pushed)
                   [] OTHER -> ScanOld(s, i + 1, 0, acc, pushed)
ParseOld(s) == ScanOld(s, 1, 0, <<>>, 0)

\* root > A > [ B > [M], T ] : the End of M and the End of B empty the root's stack before T is reached
Witness == <<[k |-> "C", kids |-> <<[k |-> "C", kids |-> <<[k |-> "M", id |-> 1]>>], [k |-> "T", id |-> 2]>>]>>
ASSUME ParseNew(Flatten(Witness)) = Witness
ASSUME ParseOld(Flatten(Witness)).tree # Witness      \* the defect repaired by the fix: commit in /repo

\* ---- generator: all trees within the bounds ------------------------------------
VARIABLES stk, nid, done
vars == <<stk, nid, done>>

Init == stk = << <<>> >> /\ nid = 1 /\ done = FALSE

Leaf(kind) ==
    /\ ~done /\ nid <= MaxItems
    /\ stk' = [stk EXCEPT ![Len(stk)] = Append(@, [k |-> kind, id |-> nid])]
    /\ nid' = nid + 1 /\ UNCHANGED done
Open ==
    /\ ~done /\ nid <= MaxItems /\ Len(stk) < MaxDepth
    /\ stk' = Append(stk, <<>>) /\ nid' = nid + 1 /\ UNCHANGED done
Close ==
    /\ ~done /\ Len(stk) > 1
    /\ stk' = [SubSeq(stk, 1, Len(stk) - 1) EXCEPT ![Len(stk) - 1] = Append(@, [k |-> "C", kids |-> stk[Len(stk)]])]
    /\ UNCHANGED <<nid, done>>
Finish == ~done /\ Len(stk) = 1 /\ done' = TRUE /\ UNCHANGED <<stk, nid>>

Next == Leaf("M") \/ Leaf("T") \/ Leaf("X") \/ Open \/ Close \/ Finish
Spec == Init /\ [][Next]_vars

Tree == stk[1]
\* Impl => Ideal: the implemented parser reconstructs exactly the tree whose stream it reads
RoundTrip == done => ParseNew(Flatten(Tree)) = Tree
EmitCase  == done => PrintT(<<"REPLAY", ToJson([tree |-> Tree])>>)
=============================================================================
