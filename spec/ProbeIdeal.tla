---------------------------- MODULE ProbeIdeal ----------------------------
(***************************************************************************)
(* IDEAL semantics of wirm's instrumentation modes, stated on the ORIGINAL *)
(* function body (DESIGN.md App. B.2; transcription of the statements of   *)
(* C15-C21, not of the implementation).                                    *)
(*                                                                         *)
(*  - Splice(B, P)  : the exact instruction sequence C15/C21 demand for    *)
(*                    plans of before / after / alternate / block-alt.     *)
(*  - IStep         : an instrumented interpreter: it executes B with the  *)
(*                    semantics of Exec and reports probe events at the    *)
(*                    moments the statements name (entry/exit of function  *)
(*                    and blocks, arrival after a construct or at a branch *)
(*                    target, ...).  No flags, no wrapper blocks, no       *)
(*                    deferred resolution -- those are implementation.     *)
(*                                                                         *)
(* A plan P is a sequence of entries [p, site, mode, code, acc]; site is   *)
(* the 0-based instruction index (-1 for function-level modes); entries    *)
(* whose injecting call panicked (acc = FALSE) were rejected and are void. *)
(***************************************************************************)
EXTENDS Exec

SimpleModes  == {"before", "after", "alternate", "empty_alternate", "block_alt", "empty_block_alt", "clear"}
ExecModes    == {"before", "after", "semantic_after", "block_entry", "block_exit",
                 "func_entry", "func_exit", "clear"}
SpecialModes == {"semantic_after", "block_entry", "block_exit", "block_alt", "empty_block_alt",
                 "func_entry", "func_exit"}

Acc(P)        == {i \in DOMAIN P : P[i].acc}
ModesOf(P)    == {P[i].mode : i \in Acc(P)}

\* a plan entry [mode |-> "clear", what |-> m, site] is clear_instr_at(site, m): it withdraws what was injected in
\* mode m at that site so far (later injections count again)
IsClear(e, what, site) == e.acc /\ e.mode = "clear" /\ e.site = site /\ e.what = what

\* injected code of all accepted entries with `mode` at 0-based `site`, in call order, minus what was withdrawn
RECURSIVE CodeAtR(_, _, _, _, _)
CodeAtR(P, i, mode, site, acc) ==
    IF i > Len(P) THEN acc
    ELSE CodeAtR(P, i + 1, mode, site,
                 IF IsClear(P[i], mode, site) THEN <<>>
                 ELSE IF P[i].acc /\ P[i].mode = mode /\ P[i].site = site THEN acc \o P[i].code ELSE acc)
CodeAt(P, mode, site) == CodeAtR(P, 1, mode, site, <<>>)

ProbeIds(code) == LET s == SelectSeq(code, LAMBDA x : x.o = "probe") IN [i \in DOMAIN s |-> s[i].p]
Fire(P, mode, site) == ProbeIds(CodeAt(P, mode, site))
Has(P, mode, site)  == \E i \in Acc(P) : P[i].mode = mode /\ P[i].site = site

\* Replacement code at a site when replacements and removals were both requested there: a removal
\* (empty_alternate / empty_block_alt) discards what earlier calls put there, a later replacement adds again
\* ("the last request decides"; both injection paths of the library reset the list on removal).
\* the state is [on, code]: on = the instruction IS replaced/removed; a withdrawal (clear) switches it off again
RECURSIVE AltR(_, _, _, _, _, _)
AltR(P, i, mode, emode, site, st) ==
    IF i > Len(P) THEN st
    ELSE AltR(P, i + 1, mode, emode, site,
              IF IsClear(P[i], mode, site) THEN [on |-> FALSE, code |-> <<>>]
              ELSE IF P[i].acc /\ P[i].site = site /\ P[i].mode = emode THEN [on |-> TRUE, code |-> <<>>]
              ELSE IF P[i].acc /\ P[i].site = site /\ P[i].mode = mode THEN [on |-> TRUE, code |-> st.code \o P[i].code]
              ELSE st)
AltState(P, site)      == AltR(P, 1, "alternate", "empty_alternate", site, [on |-> FALSE, code |-> <<>>])
BlockAltState(P, site) == AltR(P, 1, "block_alt", "empty_block_alt", site, [on |-> FALSE, code |-> <<>>])
AltCode(P, site)      == AltState(P, site).code
BlockAltCode(P, site) == BlockAltState(P, site).code

---------------------------------------------------------------------------
\* C15 / C21: the spliced sequence
\* region removed by a block-alternate at 1-based index i
RegionEnd(B, jt, i) == IF B[i].o = "else" THEN jt[i].end - 1 ELSE jt[i].end
IsAltStart(P, i)    == BlockAltState(P, i - 1).on
InRegion(B, jt, P, j) ==
    \E i \in 1 .. j : IsAltStart(P, i) /\ (B[i].o \in Openers \/ B[i].o = "else")
                      /\ j <= RegionEnd(B, jt, i)
\* an alt-start nested inside an enclosing removed region is void
Enclosed(B, jt, P, i) ==
    \E k \in 1 .. i - 1 : IsAltStart(P, k) /\ (B[k].o \in Openers \/ B[k].o = "else")
                          /\ i <= RegionEnd(B, jt, k)

Piece(B, jt, P, j) ==
    IF IsAltStart(P, j) /\ ~Enclosed(B, jt, P, j) /\ (B[j].o \in Openers \/ B[j].o = "else")
    THEN BlockAltCode(P, j - 1)
    ELSE IF InRegion(B, jt, P, j) THEN <<>>
    ELSE CodeAt(P, "before", j - 1)
         \o (IF AltState(P, j - 1).on
             THEN (IF j = Len(B) THEN <<B[j]>> ELSE AltCode(P, j - 1))
             ELSE <<B[j]>>)
         \o (IF j = Len(B) THEN <<>> ELSE CodeAt(P, "after", j - 1))

RECURSIVE SpliceR(_, _, _, _)
SpliceR(B, jt, P, j) == IF j > Len(B) THEN <<>> ELSE Piece(B, jt, P, j) \o SpliceR(B, jt, P, j + 1)
Splice(B, jt, P) == SpliceR(B, jt, P, 1)

---------------------------------------------------------------------------
\* C16-C20: the instrumented interpreter
EmitP(m, ps) == [m EXCEPT !.ev = @ \o [i \in DOMAIN ps |-> [e |-> "probe", p |-> ps[i]]]]
Unc(m)       == [m EXCEPT !.st = "unc"]     \* a situation the statements do not constrain

\* control arrives at the position after the construct opened at o whose end is j
AfterConstruct(m, B, jt, P, o, j) ==
    LET els == jt[o].els
        m1  == EmitP(m, Fire(P, "semantic_after", o - 1)
                        \o (IF els # 0 THEN Fire(P, "semantic_after", els - 1) ELSE <<>>)
                        \o Fire(P, "after", j - 1))
    IN IF B[o].o = "loop" /\ Fire(P, "semantic_after", o - 1) # <<>> THEN Unc(m)
       ELSE [m1 EXCEPT !.pc = j + 1]

IReturn(m, P, ar) == Return(EmitP(m, Fire(P, "func_exit", -1)), ar)

\* branch executed at 1-based index i to relative depth d
IBranch(m, B, jt, P, ar, i, d) ==
    IF d >= Len(m.ls)
    THEN IReturn(EmitP(m, Fire(P, "semantic_after", i - 1)), P, ar)
    ELSE LET idx  == Len(m.ls) - d
             L    == m.ls[idx]
             keep == IF L.kind = "loop" THEN 0 ELSE L.r
         IN IF Len(m.vs) < L.h + keep THEN Stuck(m)
            ELSE LET nvs == SubSeq(m.vs, 1, L.h) \o SubSeq(m.vs, Len(m.vs) - keep + 1, Len(m.vs))
                 IN IF L.kind = "loop"
                    THEN IF Fire(P, "semantic_after", i - 1) # <<>> THEN Unc(m)
                         ELSE IF m.fuel = 0 THEN [m EXCEPT !.st = "fuel"]
                         ELSE EmitP([m EXCEPT !.ls = SubSeq(@, 1, idx), !.vs = nvs,
                                              !.pc = L.opn + 1, !.fuel = @ - 1],
                                    Fire(P, "after", L.opn - 1) \o Fire(P, "block_entry", L.opn - 1))
                    ELSE AfterConstruct(
                            EmitP([m EXCEPT !.ls = SubSeq(@, 1, idx - 1), !.vs = nvs],
                                  Fire(P, "semantic_after", i - 1)),
                            B, jt, P, L.opn, L.end)

IStep(m, B, jt, ar, P, v) ==
    IF m.pc > Len(B) THEN Stuck(m)
    ELSE
    LET i  == m.pc
        s  == i - 1
        c  == B[i]
        o  == c.o
        \* function entry, then the before-probes of this instruction
        m0 == IF m.init THEN EmitP([m EXCEPT !.init = FALSE], Fire(P, "func_entry", -1)) ELSE m
        m1 == EmitP(m0, Fire(P, "before", s))
        nx == [m1 EXCEPT !.pc = @ + 1]
        aft(mm) == EmitP(mm, Fire(P, "after", s))
        entry(mm, at) == EmitP(mm, Fire(P, "after", at) \o Fire(P, "block_entry", at))
    IN
    IF AltState(P, s).on /\ i < Len(B)
    THEN aft(EmitP(nx, Fire(P, "alternate", s)))
    ELSE
    CASE o = "op"    -> IF c.k = 0 /\ v = 1
                        THEN Trap([Emit(m1, [e |-> "op", k |-> c.k]) EXCEPT !.oct = @ + 1])
                        ELSE aft([Emit(nx, [e |-> "op", k |-> c.k]) EXCEPT !.oct = IF c.k = 0 THEN @ + 1 ELSE @])
      [] o = "cond"  -> aft([Emit(nx, [e |-> "cond", k |-> c.k, v |-> v])
                                EXCEPT !.vs = Append(@, v), !.occ[c.k] = @ + 1])
      [] o = "nop"   -> aft(nx)
      [] o = "const" -> aft([nx EXCEPT !.vs = Append(@, c.v)])
      [] o = "drop"  -> IF Len(m1.vs) = 0 THEN Stuck(m1) ELSE aft([nx EXCEPT !.vs = Pop(@)])
      [] o = "try"   -> [nx EXCEPT !.ls = Append(@, Label("block", jt[i].end + 1, Len(m1.vs), c.r, i, jt[i].end))]
      [] o = "block" -> entry([nx EXCEPT !.ls = Append(@, Label("block", jt[i].end + 1, Len(m1.vs), c.r, i, jt[i].end))], s)
      [] o = "loop"  -> entry([nx EXCEPT !.ls = Append(@, Label("loop", i + 1, Len(m1.vs), c.r, i, jt[i].end))], s)
      [] o = "if"    -> IF Len(m1.vs) = 0 THEN Stuck(m1)
                        ELSE LET cv == Top(m1.vs)
                                 m2 == [m1 EXCEPT !.vs = Pop(@)]
                                 lb == Label("if", jt[i].end + 1, Len(m2.vs), c.r, i, jt[i].end)
                             IN IF cv # 0 THEN entry([m2 EXCEPT !.pc = i + 1, !.ls = Append(@, lb)], s)
                                ELSE IF jt[i].els # 0
                                THEN entry([m2 EXCEPT !.pc = jt[i].els + 1, !.ls = Append(@, lb)], jt[i].els - 1)
                                ELSE AfterConstruct(m2, B, jt, P, i, jt[i].end)
      [] o = "else"  -> \* the then-arm fell through to its else
                        IF Len(m1.ls) = 0 THEN Stuck(m1)
                        ELSE LET L == Top(m1.ls)
                             IN AfterConstruct(EmitP([m1 EXCEPT !.ls = Pop(@)], Fire(P, "block_exit", L.opn - 1)),
                                               B, jt, P, L.opn, L.end)
      [] o = "end"   -> IF Len(m1.ls) = 0 THEN IReturn(m1, P, ar)
                        ELSE LET L   == Top(m1.ls)
                                 els == jt[L.opn].els
                                 bx  == IF B[L.opn].o = "if" /\ els # 0
                                        THEN Fire(P, "block_exit", els - 1)
                                        ELSE Fire(P, "block_exit", L.opn - 1)
                             IN AfterConstruct(EmitP([m1 EXCEPT !.ls = Pop(@)], bx), B, jt, P, L.opn, i)
      [] o = "br"    -> IBranch(m1, B, jt, P, ar, i, c.d)
      [] o = "br_if" -> IF Len(m1.vs) = 0 THEN Stuck(m1)
                        ELSE IF Top(m1.vs) # 0 THEN IBranch([m1 EXCEPT !.vs = Pop(@)], B, jt, P, ar, i, c.d)
                        ELSE EmitP([nx EXCEPT !.vs = Pop(@)], Fire(P, "after", s) \o Fire(P, "semantic_after", s))
      [] o = "br_table" -> IF Len(m1.vs) = 0 THEN Stuck(m1)
                           ELSE IBranch([m1 EXCEPT !.vs = Pop(@)], B, jt, P, ar, i, BrTableDepth(c, Top(m1.vs)))
      [] o = "rnull" -> aft([nx EXCEPT !.vs = Append(@, 0)])
      [] o = "rfunc" -> aft([nx EXCEPT !.vs = Append(@, 1)])
      [] o = "bron"  -> IF Len(m1.vs) = 0 THEN Stuck(m1)
                        ELSE IF Top(m1.vs) = 0 THEN IBranch([m1 EXCEPT !.vs = Pop(@)], B, jt, P, ar, i, c.d)
                        ELSE EmitP(nx, Fire(P, "after", s) \o Fire(P, "semantic_after", s))
      \* DESIGN 10.1 (model side only so far): a taken branch fires like `br`, a fall-through like a plain instruction
      [] o = "bronn" -> IF Len(m1.vs) = 0 THEN Stuck(m1)
                        ELSE IF Top(m1.vs) # 0 THEN IBranch(m1, B, jt, P, ar, i, c.d)
                        ELSE EmitP([nx EXCEPT !.vs = Pop(@)], Fire(P, "after", s) \o Fire(P, "semantic_after", s))
      [] o = "brc"   -> IF Len(m1.vs) = 0 THEN Stuck(m1)
                        ELSE IF Top(m1.vs) # 0 THEN IBranch(m1, B, jt, P, ar, i, c.d)
                        ELSE EmitP(nx, Fire(P, "after", s) \o Fire(P, "semantic_after", s))
      [] o = "brcf"  -> IF Len(m1.vs) = 0 THEN Stuck(m1)
                        ELSE IF Top(m1.vs) = 0 THEN IBranch(m1, B, jt, P, ar, i, c.d)
                        ELSE EmitP(nx, Fire(P, "after", s) \o Fire(P, "semantic_after", s))
      [] o = "return"      -> IReturn(m1, P, ar)
      [] o = "unreachable" -> Trap(EmitP(m1, Fire(P, "func_exit", -1)))
      [] o = "throw"       -> Trap(EmitP(m1, Fire(P, "func_exit", -1)))
      \* the activation is left AT the tail call: the exit probe fires before the callee runs, once
      [] o = "rcall"       -> Return(Emit(EmitP(m1, Fire(P, "func_exit", -1)), [e |-> "op", k |-> c.k]), ar)
      [] o = "rcalli"      -> IF Len(m1.vs) = 0 THEN Stuck(m1)
                              ELSE Return(Emit(EmitP([m1 EXCEPT !.vs = Pop(@)], Fire(P, "func_exit", -1)), [e |-> "op", k |-> 3]), ar)
      [] OTHER -> Stuck(m1)
=============================================================================
