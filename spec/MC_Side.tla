------------------------------- MODULE MC_Side -------------------------------
(* generator for C23: programs of tagged / untagged additions and probes, pulled directly or after an encode *)
EXTENDS Naturals, Sequences, FiniteSets, TLC, Json
CONSTANT MaxOps
VARIABLES prog, how
vars == <<prog, how>>
Tags(n) == {"", "T" \o ToString(n)}
Adds == {"add_import_func", "add_global", "add_memory", "add_import_memory", "add_data", "add_data_active", "add_export",
         "add_type", "add_type_parsed", "build"}
Probes == {[f |-> 1, instr |-> 0, mode |-> m] : m \in {"before", "after", "alternate", "func_entry", "func_exit"}}
     \cup {[f |-> 2, instr |-> 0, mode |-> m] : m \in {"before", "block_entry", "block_exit", "semantic_after", "func_exit"}}
     \* a probe in front of the function's closing `end` (instruction 1 of f1, 7 of f2): it is emitted, so it is reported
     \cup {[f |-> 1, instr |-> 1, mode |-> "before"], [f |-> 2, instr |-> 7, mode |-> "before"]}
Init == prog = <<>> /\ how \in {"pull", "encode_then_pull"}
Step == /\ Len(prog) < MaxOps
        /\ LET n == Len(prog) + 1 IN
           \/ \E a \in Adds, t \in Tags(n) : prog' = Append(prog, [op |-> a, tag |-> t])
           \/ \E p \in Probes, t \in Tags(n), tg \in {1, 2} :
                /\ ~\E i \in DOMAIN prog : prog[i].op = "probe" /\ prog[i].f = p.f /\ prog[i].mode = p.mode /\ prog[i].instr = p.instr
                \* a tag may be appended before or after the probe's code is injected
                /\ \E tf \in BOOLEAN :
                     /\ (tf => (t # "" /\ p.mode \in {"before", "after", "alternate", "func_entry"}))
                     /\ prog' = Append(prog, [op |-> "probe", f |-> p.f, instr |-> p.instr, mode |-> p.mode, target |-> tg, tag |-> t, tagfirst |-> tf])
        /\ UNCHANGED how
Spec == Init /\ [][Step]_vars
EmitCase == prog # <<>> => PrintT(<<"REPLAY", ToJson([how |-> how, prog |-> prog])>>)
=============================================================================
