SPECIFICATION Spec
CONSTANT MaxParts = 2
INVARIANTS NeverPanics EmitCase
CHECK_DEADLOCK FALSE
