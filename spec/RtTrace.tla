------------------------------- MODULE RtTrace -------------------------------
(***************************************************************************)
(* Validates real unmodified round trips (C01, C02; also C03 and C05):     *)
(* for an input that validates, Module::parse / Component::parse must      *)
(* succeed, the encoded output must validate and print to the same text as *)
(* the input (the independent printer abstracts from section framing and   *)
(* name-section layout), and encoding again must give the same bytes; for  *)
(* ANY input, parsing must not panic.                                      *)
(***************************************************************************)
EXTENDS ValTypes, IOUtils

Cases == ndJsonDeserialize(IOEnv.TRACE)
VARIABLES cid, judged
tvars == <<cid, judged>>
C == Cases[cid]

Loss == C.kind = "vt" /\ PredictedLoss(C.vt, C.pos)
Chk(c, ok, d) ==
    IF ok THEN TRUE
    ELSE PrintT(<<"VERDICT", ToJson([tr |-> C.id, c |-> c, d |-> d, kind |-> C.kind, valid_in |-> C.valid_in,
                                     predicted_loss |-> Loss, label |-> C.label])>>)

TInit == cid \in 1 .. Len(Cases) /\ judged = FALSE
Judge ==
    /\ ~judged /\ judged' = TRUE /\ UNCHANGED cid
    /\ "skip" \in DOMAIN C \/
       /\ Chk("parse_panic", C.parse # "panic", [msg |-> C.msg])
       /\ ~C.valid_in \/
          /\ Chk("parse_rejected_valid", C.parse # "err", [msg |-> C.msg])
          /\ C.parse # "ok" \/
             /\ Chk("encode_panic", ~C.encode_panic, [msg |-> C.msg])
             /\ C.encode_panic \/
                /\ Chk("invalid_output", C.valid_out, [err |-> C.err])
                /\ Chk("content_differs", C.same_text, [sec |-> C.diff_sec, inp |-> C.diff_in, out |-> C.diff_out])
                /\ Chk("second_encode_differs", C.same2, [x |-> 0])
                \* drift of the Impl-shaped model: a predicted loss that the code does not show
                /\ (Loss /\ C.same_text) => PrintT(<<"SPEC-DRIFT", ToJson([tr |-> C.id, what |-> "predicted DataType loss not observed"])>>)
TSpec == TInit /\ [][Judge]_tvars
=============================================================================
