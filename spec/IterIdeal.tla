----------------------------- MODULE IterIdeal -----------------------------
(***************************************************************************)
(* Ideal visiting order of wirm's module and component iterators (C25,     *)
(* C26).  A module is described by its metadata: the number of imported    *)
(* functions and, per local function, its number of instructions (the      *)
(* final end included).  Function j (0-based position among the locals)    *)
(* has FunctionID nimp + j.  skips[m] is the set of FunctionIDs to skip in *)
(* module m.                                                               *)
(*                                                                         *)
(* Visit = every instruction of every local function that is not skipped,  *)
(* exactly once, in module, function and instruction order, each with its  *)
(* location and end-of-function flag.                                      *)
(***************************************************************************)
EXTENDS Naturals, Integers, Sequences, FiniteSets, TLC

\* the operator the harness's generated function j of module m has at index i (n instructions)
ExpectedOp(m, j, i, n) ==
    IF i = n - 1 THEN "end"
    ELSE LET pairs == ((n - 1) \div 2) * 2 IN
         IF i < pairs
         THEN (IF i % 2 = 0 THEN "const" \o ToString(m * 10000 + j * 100 + i) ELSE "drop")
         ELSE "nop"

FuncVisit(m, nimp, j, n) ==
    [i \in 1 .. n |-> [mod |-> m, fid |-> nimp + j, idx |-> i - 1, end |-> (i = n),
                       opk |-> ExpectedOp(m, j, i - 1, n)]]

\* md.repl = n > 0: before iterating, import 0 was replaced by a built function of n instructions
\* (FunctionBuilder::replace_import_in_module): it is a local function now, under its old ID 0, and comes first
Repl(md) == IF "repl" \in DOMAIN md THEN md.repl ELSE 0
ReplVisit(m, md, sk) ==
    IF Repl(md) = 0 \/ 0 \in sk THEN <<>>
    ELSE [i \in 1 .. Repl(md) |-> [mod |-> m, fid |-> 0, idx |-> i - 1, end |-> (i = Repl(md)),
                                   opk |-> ExpectedOp(m, 9, i - 1, Repl(md))]]

RECURSIVE ModVisitR(_, _, _, _)
ModVisitR(m, md, sk, j) ==       \* j: 1-based position in md.funcs
    IF j > Len(md.funcs) THEN <<>>
    ELSE (IF (md.nimp + j - 1) \in sk THEN <<>> ELSE FuncVisit(m, md.nimp, j - 1, md.funcs[j]))
         \o ModVisitR(m, md, sk, j + 1)
ModVisit(m, md, sk) == ReplVisit(m, md, sk) \o ModVisitR(m, md, sk, 1)

RECURSIVE VisitR(_, _, _)
VisitR(mods, skips, m) ==        \* m: 1-based module position
    IF m > Len(mods) THEN <<>>
    ELSE ModVisit(m - 1, mods[m], {skips[m][x] : x \in DOMAIN skips[m]}) \o VisitR(mods, skips, m + 1)
Visit(mods, skips) == VisitR(mods, skips, 1)

\* ---- the iterator as a state machine over positions of Visit --------------------
\* p in 1..Len(V): pointing at V[p];  after construction p = 1 (or nothing to visit)
NextResult(V, p) == p < Len(V)             \* next() returns Some iff another element follows
NextPos(V, p)    == IF p < Len(V) THEN p + 1 ELSE p
ResetPos         == 1
=============================================================================
