--------------------------- MODULE ModuleTrace ---------------------------
(***************************************************************************)
(* Trace validation of REAL wirm executions against ModuleIdeal.           *)
(*                                                                         *)
(* The harness records one ndjson event per public API call *return*       *)
(* (arguments, returned IDs, or "panic") and, at every encode, the         *)
(* projection alpha(out) of the encoded bytes (which token each index       *)
(* designates).  This spec replays the events through the Ideal operators, *)
(* keeping the caller-side view: h maps the IDs the library handed out to  *)
(* tokens ("the function the caller's ID designated").  It is a TOTAL      *)
(* MONITOR: every event is consumed; each Ideal conjunct that fails prints *)
(* one VERDICT line and the run continues, so all traces of a campaign are *)
(* judged in one TLC start (DESIGN.md 4.1).                                *)
(***************************************************************************)
EXTENDS ModuleIdeal, Json, IOUtils

Rec == ndJsonDeserialize(IOEnv.TRACE)

VARIABLES l,     \* next event
          S,     \* Ideal module state
          h,     \* <<space, id>> -> token   (caller's handles)
          ih,    \* ImportsID -> key
          ops,   \* op names seen in this trace (for attribution)
          V      \* Impl-shaped shadow (Reorg.tla): per space the slot vector of the real Module, the
                 \* number of imports the parsed module had, and whether the shadow is still exact
vars == <<l, S, h, ih, ops, V>>
R == INSTANCE Reorg

Range(s) == {s[i] : i \in DOMAIN s}
e == Rec[l]

\* IF, not \/ : inside an action TLC explores both disjuncts of a disjunction
Chk(c, ok, d) ==
    IF ok THEN TRUE
    ELSE PrintT(<<"VERDICT", ToJson([tr |-> e.tr, l |-> l, c |-> c, d |-> d,
                                     ops |-> ops])>>)

HKey(sp, id) == <<sp, h[<<sp, id>>]>>
HasH(sp, id) == <<sp, id>> \in DOMAIN h

V_Empty == [vec |-> [sp \in Spaces |-> <<>>], n0 |-> [sp \in Spaces |-> 0], exact |-> FALSE]
Init == l = 1 /\ S = I_Empty /\ h = <<>> /\ ih = <<>> /\ ops = {} /\ V = V_Empty

\* ---- the Impl-shaped shadow: what the real index-space vectors look like ---------------------
\* slot = [id, tok, imp, del, iid]; ids are slot positions; iid = position in the imports vector
V_Base(ents, imps) ==
    LET E(sp) == {x \in ents : x.k[1] = sp}
        IidOf(k) == IF \E i \in DOMAIN imps : imps[i] = k THEN (CHOOSE i \in DOMAIN imps : imps[i] = k) - 1 ELSE 0
    IN [vec |-> [sp \in Spaces |-> [i \in 1 .. Cardinality(E(sp)) |->
                    LET x == CHOOSE y \in E(sp) : y.id = i - 1
                    IN [id |-> i - 1, tok |-> x.k[2], imp |-> (x.kind = "I"), del |-> FALSE, iid |-> IidOf(x.k)]]],
        n0 |-> [sp \in Spaces |-> Cardinality({x \in E(sp) : x.kind = "I"})],
        exact |-> TRUE]
V_Add(sp, id, tok, kind, iid) ==
    IF V.exact /\ id = Len(V.vec[sp])
    THEN [V EXCEPT !.vec[sp] = Append(@, [id |-> id, tok |-> tok, imp |-> (kind = "I"), del |-> FALSE, iid |-> (IF kind = "I" THEN iid ELSE 0)])]
    ELSE [V EXCEPT !.exact = FALSE]
V_Delete(sp, id) ==
    IF V.exact /\ id + 1 \in DOMAIN V.vec[sp] THEN [V EXCEPT !.vec[sp][id + 1].del = TRUE] ELSE [V EXCEPT !.exact = FALSE]
V_Conv(id, tok, iid) ==
    IF V.exact /\ id + 1 \in DOMAIN V.vec["f"]
    THEN [V EXCEPT !.vec["f"][id + 1] = [@ EXCEPT !.tok = tok, !.imp = TRUE, !.iid = iid]]
    ELSE [V EXCEPT !.exact = FALSE]
V_Replace(iid, tok) ==
    LET slots == {i \in DOMAIN V.vec["f"] : V.vec["f"][i].imp /\ ~V.vec["f"][i].del /\ V.vec["f"][i].iid = iid} IN
    IF V.exact /\ Cardinality(slots) = 1
    THEN LET i == CHOOSE x \in slots : TRUE IN [V EXCEPT !.vec["f"][i] = [@ EXCEPT !.tok = tok, !.imp = FALSE]]
    ELSE [V EXCEPT !.exact = FALSE]
\* prediction of the encoded index space of `sp` by the transcribed algorithm
V_Predict(sp) == LET out == R!ReorgNow(V.vec[sp], V.n0[sp]) IN [i \in DOMAIN out |-> out[i].tok]

Consume == l <= Len(Rec) /\ l' = l + 1

---------------------------------------------------------------------------
Base ==
    /\ e.t = "base"
    /\ LET ents  == Range(e.ents)
           sites == Range(e.sites)
           nms   == Range(e.names)
       IN
       /\ S' = [ent  |-> [k \in {x.k : x \in ents} |->
                            [kind |-> (CHOOSE x \in ents : x.k = k).kind,
                             live |-> TRUE, org |-> "base"]],
                want |-> [s \in {x.s : x \in sites} |->
                            LET x == CHOOSE y \in sites : y.s = s
                            IN [k |-> x.k, owner |-> x.owner, sk |-> x.sk]],
                nm   |-> [nk \in {x.nk : x \in nms} |->
                            LET x == CHOOSE y \in nms : y.nk = nk
                            IN [name |-> x.name, ent |-> x.ent]],
                free |-> {}, maybe |-> {}, mnames |-> {}]
       /\ h' = [p \in {<<x.k[1], x.id>> : x \in ents} |->
                  (CHOOSE x \in ents : <<x.k[1], x.id>> = p).k[2]]
       /\ ih' = [i \in 0 .. (Len(e.imps) - 1) |-> e.imps[i + 1]]
       /\ ops' = {}
       /\ V' = V_Base(ents, e.imps)

IsCall(op) == e.t = "call" /\ e.op = op

Rejected ==          \* a call that panicked: the Ideal state is unchanged (B.4), except that
                     \* whatever the aborted call may have left behind is not held against the code
    /\ e.t = "call" /\ e.panic
    \* the generator only issues calls that are valid for the state they are made in: a panic is a verdict
    \* of its own (the history "any sequence of ..." could not be carried out)
    /\ Chk("call_panicked", FALSE, [op |-> e.op, sp |-> (IF "sp" \in DOMAIN e THEN e.sp ELSE "f"),
                                    kind |-> (IF "kind" \in DOMAIN e THEN e.kind ELSE ""), msg |-> e.msg])
    /\ S' = CASE e.op \in {"add", "conv_l2i", "replace_import"} -> I_Maybe(S, <<(IF e.op = "add" THEN e.sp ELSE "f"), e.tok>>)
               [] e.op = "set_name" -> I_MaybeName(S, e.name)
               [] OTHER -> S
    /\ UNCHANGED <<h, ih>>
    /\ ops' = ops \cup {(IF e.op = "add" THEN "add" \o e.kind ELSE e.op) \o "!"}
    /\ V' = [V EXCEPT !.exact = FALSE]      \* an aborted call may have left anything behind

Add ==
    /\ IsCall("add") /\ ~e.panic
    /\ LET k == <<e.sp, e.tok>> IN
       /\ Assert(~Known(S, k), <<"harness reused a token", e>>)
       /\ Chk("handle_collision",
              ~(HasH(e.sp, e.id) /\ Live(S, HKey(e.sp, e.id))),
              [sp |-> e.sp, id |-> e.id, kind |-> e.kind])
       /\ S' = I_AddEnt(S, k, e.kind, "add")
       /\ h' = (<<e.sp, e.id>> :> e.tok) @@ h
       /\ ih' = IF e.kind = "I" THEN (e.iid :> k) @@ ih ELSE ih
    /\ ops' = ops \cup {"add_" \o e.sp \o e.kind}
    /\ V' = V_Add(e.sp, e.id, e.tok, e.kind, e.iid)

Delete ==
    /\ IsCall("delete") /\ ~e.panic
    /\ S' = I_Delete(S, HKey(e.sp, e.id))
    /\ UNCHANGED <<h, ih>>
    /\ ops' = ops \cup {"delete_" \o e.sp}
    /\ V' = V_Delete(e.sp, e.id)

ConvL2I ==
    /\ IsCall("conv_l2i") /\ ~e.panic
    /\ LET old == HKey("f", e.id)
           new == <<"f", e.tok>> IN
       IF e.ret
       THEN /\ Chk("conv_accepted_on_import", S.ent[old].kind = "L", [id |-> e.id])
            /\ S' = I_Retarget(S, old, new, "I", "conv")
            /\ h' = [h EXCEPT ![<<"f", e.id>>] = e.tok]
            /\ ih' = (e.iid :> new) @@ ih
       ELSE /\ Chk("conv_refused_on_local", S.ent[old].kind = "I", [id |-> e.id])
            /\ UNCHANGED <<S, h, ih>>
    /\ ops' = ops \cup {"conv_l2i"}
    /\ V' = IF e.ret THEN V_Conv(e.id, e.tok, e.iid) ELSE V

ReplaceImport ==
    /\ IsCall("replace_import") /\ ~e.panic
    /\ LET old == ih[e.iid]
           new == <<"f", e.tok>>
           ids == {p \in DOMAIN h : p[1] = "f" /\ h[p] = old[2]} IN
       /\ S' = I_Retarget(S, old, new, "L", "repl")
       /\ h' = [p \in DOMAIN h |-> IF p \in ids THEN e.tok ELSE h[p]]
       /\ UNCHANGED ih
    /\ ops' = ops \cup {"replace_import"}
    /\ V' = V_Replace(e.iid, e.tok)

Inject ==            \* a new reference site (injected code, added export, new initialiser ...)
    /\ IsCall("inject") /\ ~e.panic
    /\ LET owner == IF e.osp = "x" THEN ModOwner ELSE HKey(e.osp, e.oid) IN
       S' = I_AddSite(S, e.s, HKey(e.sp, e.id), owner, e.sk)
    /\ UNCHANGED <<h, ih>>
    /\ ops' = ops \cup {"inject_" \o e.sk}
    /\ UNCHANGED V

RemoveSite ==
    /\ IsCall("remove_site") /\ ~e.panic
    /\ S' = I_RemoveSite(S, e.s)
    /\ UNCHANGED <<h, ih>>
    /\ ops' = ops \cup {"remove_site"}
    /\ UNCHANGED V

SetName ==
    /\ IsCall("set_name") /\ ~e.panic
    /\ LET k == HKey(e.sp, e.id) IN S' = I_SetName(S, k, k, e.name)
    /\ UNCHANGED <<h, ih>>
    /\ ops' = ops \cup {"set_name_" \o e.via}
    /\ UNCHANGED V

---------------------------------------------------------------------------
ObsTok(s) ==
    IF \E i \in DOMAIN e.sites : e.sites[i].s = s
    THEN e.sites[CHOOSE i \in DOMAIN e.sites : e.sites[i].s = s].tok
    ELSE -2

\* the token found at the index the caller knows the wanted entity by (its ID before re-indexing); a site that
\* designates it was emitted with its old, un-remapped index (the signature of finding F-S13)
StaleTok(k) ==
    LET ids == {p \in DOMAIN h : p[1] = k[1] /\ h[p] = k[2]} IN
    IF ids = {} \/ k[1] \notin Spaces THEN -3
    ELSE LET id == (CHOOSE p \in ids : TRUE)[2] IN
         IF id + 1 \in DOMAIN e[k[1]] THEN e[k[1]][id + 1] ELSE -1
SiteD(s, got) == [s |-> s, sp |-> S.want[s].k[1], sk |-> S.want[s].sk,
                  want |-> S.want[s].k[2], got |-> got, stale |-> (got = StaleTok(S.want[s].k)),
                  org |-> (IF Known(S, S.want[s].k) THEN S.ent[S.want[s].k].org ELSE "none")]

\* did entity k end up at an index different from the ID the caller knows it by?
\* (feature for finding classification: index-keyed name maps are only at risk then)
Moved(k) ==
    LET ids == {p \in DOMAIN h : p[1] = k[1] /\ h[p] = k[2]} IN
    IF ids = {} \/ k[1] \notin Spaces THEN TRUE
    ELSE LET id == (CHOOSE p \in ids : TRUE)[2] IN
         ~(id + 1 \in DOMAIN e[k[1]] /\ e[k[1]][id + 1] = k[2])
NameMoved(name) ==
    \E nk \in DOMAIN S.nm : S.nm[nk].name = name /\ (Moved(S.nm[nk].ent) \/ ~Live(S, S.nm[nk].ent))

EncodeOk ==
    /\ \A sp \in Spaces :
         /\ \A k \in EntMissing(S, sp, e[sp]) :
               Chk("ent_missing", FALSE, [sp |-> sp, tok |-> k[2], kind |-> S.ent[k].kind, org |-> S.ent[k].org])
         /\ \A k \in EntDuplicated(S, sp, e[sp]) :
               Chk("ent_dup", FALSE, [sp |-> sp, tok |-> k[2], kind |-> S.ent[k].kind, org |-> S.ent[k].org])
         /\ \A i \in EntExtra(S, sp, e[sp]) :
               Chk("ent_extra", FALSE, [sp |-> sp, idx |-> i - 1, tok |-> e[sp][i]])
    /\ \A s \in Bound(S) : Chk("ref", SiteOk(S, s, ObsTok(s)), SiteD(s, ObsTok(s)))
    /\ \A s \in Dangling(S) : Chk("dangling_silent", DanglingOk(S, s, ObsTok(s)), SiteD(s, ObsTok(s)))
    /\ Chk("invalid", e.valid, [err |-> e.err])
    /\ LET on == Range(e.names) IN
       /\ \A nk \in NameMissing(S, on) :
             Chk("name_missing", FALSE, [sp |-> nk[1], n |-> nk[2], name |-> S.nm[nk].name,
                                           moved |-> Moved(S.nm[nk].ent)])
       /\ \A p \in NameWrong(S, on) :
             Chk("name_wrong", FALSE, [sp |-> p.nk[1], n |-> p.nk[2], name |-> p.name,
                                         moved |-> (Moved(p.ent) \/ NameMoved(p.name))])
    /\ Chk("second_encode_differs", e.same2, [valid2 |-> e.valid2])
    /\ Chk("nondeterministic", ~e.nd, [x |-> 0])

EncodePanic ==
    Chk("encode_panic", Dangling(S) # {}, [msg |-> e.msg])

\* conformance of the Impl-shaped model: the real encoder's index spaces must be exactly the ones the
\* transcribed re-indexing (Reorg.tla) yields for the shadow vectors.  A difference is SPEC-DRIFT (the
\* model no longer describes the code), reported but not a property verdict.
DriftOk ==
    \A sp \in Spaces :
       IF V.exact /\ ~e.panic /\ V_Predict(sp) # e[sp]
       THEN PrintT(<<"SPEC-DRIFT", ToJson([tr |-> e.tr, sp |-> sp, predicted |-> V_Predict(sp), observed |-> e[sp]])>>)
       ELSE TRUE

\* A structural call that panicked was rejected (B.4) but may have left the real object half-updated (e.g. the
\* import pushed before the assertion fired): whatever is encoded afterwards is not a history the statements
\* speak about, so it is not judged.  Exception: a rejected addition of a LOCAL item (finish_module's trailing
\* assertion, finding F-S35) leaves at most that one complete item behind, which I_Maybe already tolerates.
Tainted == \E x \in ops : x \in {"addI!", "conv_l2i!", "replace_import!", "delete!"}

Encode ==
    /\ e.t = "encode"
    /\ IF Tainted THEN TRUE ELSE IF e.panic THEN EncodePanic ELSE EncodeOk
    /\ DriftOk
    /\ UNCHANGED <<S, h, ih, ops>>
    /\ V' = [V EXCEPT !.exact = FALSE]      \* the encode renumbers the vectors: the shadow ends here

ParseFail ==         \* the generated base module was not even accepted by Module::parse
    /\ e.t = "parse_fail"
    /\ Chk("parse_fail", FALSE, [msg |-> e.msg])
    /\ UNCHANGED <<S, h, ih, ops, V>>

Next ==
    /\ Consume
    /\ \/ Base \/ Rejected \/ Add \/ Delete \/ ConvL2I \/ ReplaceImport
       \/ Inject \/ RemoveSite \/ SetName \/ Encode \/ ParseFail

Spec == Init /\ [][Next]_vars

\* every event must have been consumed (a stuck trace is a malformed trace =
\* tool error, never a property verdict)
Post ==
    /\ PrintT(<<"POST", TLCGet("stats").diameter, Len(Rec)>>)
    /\ TLCGet("stats").diameter = Len(Rec) + 1
=============================================================================
