------------------------------ MODULE ParseTrace ------------------------------
(***************************************************************************)
(* Validates recorded outcomes of Module::parse / Component::parse (C03):  *)
(* model-generated binaries (ParseRobust parts) and the panic sites found  *)
(* among their and the corpus's truncations / byte substitutions.  Ideal:  *)
(* no outcome is a panic.  Disagreement between the recorded outcome class *)
(* and the Impl-shaped Outcome is reported as SPEC-DRIFT, never as a       *)
(* violation.                                                              *)
(***************************************************************************)
EXTENDS ParseRobust, Json, IOUtils
Cases == ndJsonDeserialize(IOEnv.TRACE)
VARIABLES cid, judged
vars == <<cid, judged>>
C == Cases[cid]
Chk(c, ok, d) ==
    IF ok THEN TRUE
    ELSE PrintT(<<"VERDICT", ToJson([tr |-> C.id, c |-> c, d |-> d, kind |-> C.kind])>>)
Init == cid \in 1 .. Len(Cases) /\ judged = FALSE
Judge ==
    /\ ~judged /\ judged' = TRUE /\ UNCHANGED cid
    /\ C.t # "parse" \/
       /\ Chk("parse_panic", C.module # "panic", [api |-> "Module::parse", msg |-> C.module_msg, hex |-> C.hex])
       /\ Chk("parse_panic", C.component # "panic", [api |-> "Component::parse", msg |-> C.component_msg, hex |-> C.hex])
       /\ (C.kind = "model" /\ C.module # "panic" /\ C.module # Outcome(C.parts)) =>
             PrintT(<<"SPEC-DRIFT", ToJson([tr |-> C.id, model |-> Outcome(C.parts), code |-> C.module, parts |-> C.parts])>>)
Spec == Init /\ [][Judge]_vars
=============================================================================
