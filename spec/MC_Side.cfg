SPECIFICATION Spec
CONSTANT MaxOps = 2
INVARIANT EmitCase
CHECK_DEADLOCK FALSE
