------------------------------ MODULE MC_Reorg ------------------------------
(* exhaustive check of the Impl-shaped re-indexing (Reorg.tla) against its Ideal for every item vector up to MaxN *)
EXTENDS Reorg
CONSTANT MaxN
VARIABLES v, n0
vars == <<v, n0>>
Init == \E n \in 0 .. MaxN : \E k \in 0 .. n : n0 = k /\ v \in Vectors(n, k)
Next == UNCHANGED vars
Spec == Init /\ [][Next]_vars
\* the current algorithm meets the Ideal on every input ...
NowOk == IdealOk(v, ReorgNow(v, n0))
\* ... and the old->new mapping is a bijection from live ids onto 0..live-1
MappingOk == LET out == ReorgNow(v, n0) m == MappingOf(out) IN
             /\ DOMAIN m = {x.id : x \in Live(v)}
             /\ {m[i] : i \in DOMAIN m} = 0 .. (Len(out) - 1)
\* reorganising an already organised vector (second encode) changes nothing: idempotence at this level
Idem == LET out == ReorgNow(v, n0)
            nimp == Cardinality({k \in DOMAIN out : out[k].imp}) IN
        \* after an encode the module renumbers: ids := positions, the import count is the new n0
        LET out2 == [k \in DOMAIN out |-> [out[k] EXCEPT !.id = k - 1]] IN
        ReorgNow(out2, nimp) = out2
=============================================================================
