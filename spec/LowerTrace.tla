----------------------------- MODULE LowerTrace -----------------------------
(***************************************************************************)
(* Validation of REAL lowering results against the ideal semantics.        *)
(*                                                                         *)
(* Each record of the trace file is one case: an original function body,   *)
(* an instrumentation plan (with, per entry, whether the injecting call    *)
(* was accepted), and the body the real encoder produced for it, decoded   *)
(* back into the Exec alphabet by the harness.  For each case this spec    *)
(*  1. checks static facts (validity, no foreign instruction, the splice   *)
(*     demanded by C15/C21, no lost injection, no BUG log, idempotence),   *)
(*  2. runs the ideal machine (ProbeIdeal!IStep) on the ORIGINAL body and  *)
(*     then the plain machine (Exec!XStep) on the LOWERED body under the   *)
(*     same decision/trap draws -- every draw sequence is explored -- and  *)
(*     compares the event logs.                                            *)
(* It is a total monitor: failed conjuncts print VERDICT lines.            *)
(***************************************************************************)
EXTENDS ProbeIdeal, Json, IOUtils

Cases == ndJsonDeserialize(IOEnv.TRACE)
N     == Len(Cases)

VARIABLES cid, phase, mi, ml, dr, dt
vars == <<cid, phase, mi, ml, dr, dt>>

C    == Cases[cid]
Skip(c)    == "skip" \in DOMAIN Cases[c]
Foreign(code) == \E i \in DOMAIN code : code[i].o = "foreign"
Runnable(c) == ~Skip(c) /\ ~Cases[c].encode_panic /\ ~Foreign(Cases[c].low) /\ WellNested(Cases[c].low)

\* jump tables, computed once per case (constant-level definitions are cached by TLC)
JTO == [c \in 1 .. N |-> IF Skip(c) THEN <<>> ELSE JT(Cases[c].orig)]
JTL == [c \in 1 .. N |-> IF Runnable(c) THEN JT(Cases[c].low) ELSE <<>>]

\* features of the plan used to classify verdicts (known findings, DESIGN.md 5.1)
SiteOp(i)  == IF C.plan[i].site >= 0 THEN C.orig[C.plan[i].site + 1].o ELSE "fn"
SaArms ==      \* number of branch arms carrying a semantic-after probe
    LET Arms(i) == IF C.plan[i].mode # "semantic_after" \/ C.plan[i].site < 0 THEN 0
                   ELSE LET c == C.orig[C.plan[i].site + 1] IN
                        IF c.o = "br_table" THEN Len(c.ds) + 1
                        ELSE IF c.o \in {"br", "br_if", "bron"} THEN 1 ELSE 0
        RECURSIVE Sum(_)
        Sum(i) == IF i > Len(C.plan) THEN 0 ELSE (IF C.plan[i].acc THEN Arms(i) ELSE 0) + Sum(i + 1)
    IN Sum(1)
SetToSortedSeq(S) == SortSeq(CHOOSE s \in [1 .. Cardinality(S) -> S] : {s[i] : i \in DOMAIN s} = S,
                             LAMBDA a, b : a < b)
EntryOfProbe(p) ==
    LET es == {i \in DOMAIN C.plan : p \in {ProbeIds(C.plan[i].code)[j] : j \in DOMAIN ProbeIds(C.plan[i].code)}}
    IN IF es = {} THEN 0 ELSE CHOOSE i \in es : TRUE
TKinds(i) == IF i = 0 \/ C.plan[i].site < 0 THEN {} ELSE TargetKinds(C.orig, C.plan[i].site + 1)

ModeOfProbe(p) ==
    LET es == {i \in DOMAIN C.plan : p \in {ProbeIds(C.plan[i].code)[j] : j \in DOMAIN ProbeIds(C.plan[i].code)}}
    IN IF es = {} THEN "none" ELSE C.plan[CHOOSE i \in es : TRUE].mode
ApiOfProbe(p) ==
    LET es == {i \in DOMAIN C.plan : p \in {ProbeIds(C.plan[i].code)[j] : j \in DOMAIN ProbeIds(C.plan[i].code)}}
    IN IF es = {} THEN "none" ELSE C.plan[CHOOSE i \in es : TRUE].api

Init ==
    /\ cid \in 1 .. N
    /\ phase = "static"
    /\ mi = NewMachine /\ ml = NewMachine
    /\ dr = [k \in 0 .. NConds - 1 |-> <<>>] /\ dt = <<>>

---------------------------------------------------------------------------
\* probes of accepted special-mode entries must be present in the lowered body (C22)
LostEntries ==
    {i \in Acc(C.plan) :
        /\ C.plan[i].mode \in SpecialModes \ {"empty_block_alt"}
        /\ \E p \in {ProbeIds(C.plan[i].code)[j] : j \in DOMAIN ProbeIds(C.plan[i].code)} :
              ~\E x \in DOMAIN C.low : C.low[x].o = "probe" /\ C.low[x].p = p}

\* flag locals introduced by the encoder must be fresh
LocalsTouched(code) == {code[i].x : i \in {j \in DOMAIN code : code[j].o \in {"lget", "lset"}}}

SimplePlan == ModesOf(C.plan) \subseteq SimpleModes
ExecPlan   == ModesOf(C.plan) \subseteq ExecModes

\* plans for which the statements are silent are not judged syntactically:
\* other injections at or inside a region removed by a block-alternate
\* (a further block-alternate STRICTLY inside the removed region is not such a case: C21 says the construct is
\*  removed "from its opening instruction through its matching end", so the inner replacement goes with it)
Overlap ==
    \E i \in Acc(C.plan), k \in Acc(C.plan) :
        /\ i # k /\ C.plan[i].mode \in {"block_alt", "empty_block_alt"}
        /\ ~(C.plan[k].mode \in {"block_alt", "empty_block_alt"} /\ C.plan[k].site > C.plan[i].site)
        /\ C.plan[i].site >= 0 /\ C.plan[k].site >= 0
        /\ C.orig[C.plan[i].site + 1].o \in (Openers \cup {"else"})
        /\ C.plan[k].site + 1 >= C.plan[i].site + 1
        /\ C.plan[k].site + 1 <= (IF C.orig[C.plan[i].site + 1].o = "else"
                                  THEN JTO[cid][C.plan[i].site + 1].end
                                  ELSE JTO[cid][C.plan[i].site + 1].end)

\* a block-alternate nested strictly inside the region of another: the FIRST encoding is judged (outer removal
\* wins, ProbeIdeal!Enclosed); the inner injection stays pending in the IR, which is the situation of finding
\* F-OVL, so for attribution (C22 / second encodings) such plans count as overlapping
NestedAlt ==
    \E i \in Acc(C.plan), k \in Acc(C.plan) :
        /\ i # k /\ {C.plan[i].mode, C.plan[k].mode} \subseteq {"block_alt", "empty_block_alt"}
        /\ C.plan[i].site >= 0 /\ C.plan[k].site > C.plan[i].site
        /\ C.orig[C.plan[i].site + 1].o \in (Openers \cup {"else"})
        /\ C.plan[k].site + 1 <= JTO[cid][C.plan[i].site + 1].end
IsSecond == "second" \in DOMAIN C /\ C.second
\* a block-entry / block-exit / semantic-after probe on a construct that sits STRICTLY inside a region removed by a
\* block-alternate: control can never enter, leave or arrive after that construct any more, so the probe must never
\* fire (C18-C20 "and at no other time"): on the first encoding none of its code may be left in the lowered body.
\* (before/after code of removed instructions is kept by the library, like for a removal by empty_alternate: C15)
InsideRemoved(k) ==
    \E i \in Acc(C.plan) :
        /\ i # k /\ C.plan[i].mode \in {"block_alt", "empty_block_alt"} /\ C.plan[i].site >= 0
        /\ C.orig[C.plan[i].site + 1].o \in (Openers \cup {"else"})
        /\ C.plan[k].site > C.plan[i].site
        \* (the region's own final end is not "inside": the library keeps injections made on it, and the statement
        \*  does not say otherwise)
        /\ C.plan[k].site + 1 <= RegionEnd(C.orig, JTO[cid], C.plan[i].site + 1)
        /\ (C.orig[C.plan[i].site + 1].o = "else" \/ C.plan[k].site + 1 < RegionEnd(C.orig, JTO[cid], C.plan[i].site + 1))
LeftFromRemoved ==
    {k \in Acc(C.plan) :
        /\ C.plan[k].site >= 0 /\ InsideRemoved(k)
        /\ C.plan[k].mode \in {"block_entry", "block_exit", "semantic_after"}
        /\ \E x \in DOMAIN C.low : C.low[x].o = "probe"
              /\ \E j \in DOMAIN ProbeIds(C.plan[k].code) : ProbeIds(C.plan[k].code)[j] = C.low[x].p}

Chk(c, ok, d) ==
    IF ok THEN TRUE
    ELSE PrintT(<<"VERDICT", ToJson([tr |-> C.id, c |-> c, d |-> d, modes |-> ModesOf(C.plan),
                                     apis |-> {C.plan[i].api : i \in Acc(C.plan)},
                                     overlap |-> (Overlap \/ NestedAlt), sa_arms |-> SaArms])>>)

\* distinct relative depths a branch at plan entry i can go to
NTargets(i) ==
    IF C.plan[i].site < 0 THEN 0
    ELSE LET c == C.orig[C.plan[i].site + 1] IN
         IF c.o = "br_table" THEN Cardinality({c.ds[x] : x \in DOMAIN c.ds} \cup {c.d})
         ELSE IF c.o \in {"br", "br_if", "bron"} THEN 1 ELSE 0
InLoop(i) == C.plan[i].site >= 0 /\
             \E x \in DOMAIN OpenKinds(C.orig, 1, C.plan[i].site + 1, <<>>) :
                 OpenKinds(C.orig, 1, C.plan[i].site + 1, <<>>)[x] = "loop"
EntryD(i) == [mode |-> C.plan[i].mode, api |-> C.plan[i].api, site |-> C.plan[i].site,
              sop |-> SiteOp(i), tfn |-> ("fn" \in TKinds(i)), tloop |-> ("loop" \in TKinds(i)),
              ntgt |-> NTargets(i), inloop |-> InLoop(i)]

Static ==
    /\ phase = "static"
    /\ IF Skip(cid) THEN TRUE
       ELSE
       /\ Chk("encode_panic", ~C.encode_panic, [msg |-> C.msg])
       /\ C.encode_panic \/
          /\ Chk("invalid", C.valid \/ (NestedAlt /\ IsSecond), [err |-> C.err])
          /\ Chk("foreign", ~Foreign(C.low), [x |-> 0])
          /\ Chk("bug_log", C.bugs = <<>>, [n |-> Len(C.bugs)])
          /\ \A i \in LostEntries :
                Chk("lost_injection", FALSE, EntryD(i))
          /\ IF IsSecond THEN TRUE ELSE \A k \in LeftFromRemoved : Chk("code_of_removed_region_left", FALSE, EntryD(k))
          /\ Chk("second_encode_differs", C.same2, [x |-> 0])
          \* C26: a plan injected through a ComponentIterator encodes to the same module as through ModuleIterator
          /\ Chk("component_differs_from_module", ("twin_same" \notin DOMAIN C) \/ C.twin_same, [x |-> 0])
          /\ Chk("nondeterministic", ~C.nd, [x |-> 0])
          /\ Chk("flag_local_not_fresh",
                 \A x \in LocalsTouched(C.low) \ LocalsTouched(C.orig) : x >= C.nlocals,
                 [x |-> 0])
          /\ (SimplePlan /\ ~Overlap /\ ~(NestedAlt /\ IsSecond)) =>
                /\ Chk("splice", C.low = Splice(C.orig, JTO[cid], C.plan),
                       [want |-> Len(Splice(C.orig, JTO[cid], C.plan)), got |-> Len(C.low)])
                /\ Chk("locals_changed", Len(C.locals) = C.nlocals, [n |-> Len(C.locals)])
    /\ phase' = IF Runnable(cid) /\ C.valid /\ ExecPlan THEN "ideal" ELSE "done"
    /\ UNCHANGED <<cid, mi, ml, dr, dt>>

---------------------------------------------------------------------------
\* decision values: a br_table consumer needs one value per target plus the default
CondVals(code, pc) ==
    IF pc + 1 <= Len(code) /\ code[pc + 1].o = "br_table"
    THEN 0 .. Len(code[pc + 1].ds)
    ELSE {0, 1}

StepIdeal ==
    /\ phase = "ideal"
    /\ IF mi.st # "run"
       THEN phase' = "low" /\ UNCHANGED <<mi, dr, dt>>
       ELSE /\ phase' = phase
            /\ LET B == C.orig IN
               IF NeedsCond(B, mi)
               THEN LET k == B[mi.pc].k
                        n == mi.occ[k] + 1 IN
                    IF n <= Len(dr[k])
                    THEN mi' = IStep(mi, B, JTO[cid], C.arity, C.plan, dr[k][n]) /\ UNCHANGED <<dr, dt>>
                    ELSE \E v \in CondVals(B, mi.pc) :
                            /\ dr' = [dr EXCEPT ![k] = Append(@, v)]
                            /\ mi' = IStep(mi, B, JTO[cid], C.arity, C.plan, v)
                            /\ UNCHANGED dt
               ELSE IF NeedsTrap(B, mi)
               THEN LET n == mi.oct + 1 IN
                    IF n <= Len(dt)
                    THEN mi' = IStep(mi, B, JTO[cid], C.arity, C.plan, dt[n]) /\ UNCHANGED <<dr, dt>>
                    ELSE \E v \in {0, 1} :
                            /\ dt' = Append(dt, v)
                            /\ mi' = IStep(mi, B, JTO[cid], C.arity, C.plan, v)
                            /\ UNCHANGED dr
               ELSE mi' = IStep(mi, B, JTO[cid], C.arity, C.plan, 0) /\ UNCHANGED <<dr, dt>>
    /\ UNCHANGED <<cid, ml>>

Str(ev) == [i \in DOMAIN ev |->
              CASE ev[i].e = "probe" -> "P" \o ToString(ev[i].p)
                [] ev[i].e = "op"    -> "o" \o ToString(ev[i].k)
                [] ev[i].e = "cond"  -> "c" \o ToString(ev[i].k) \o "=" \o ToString(ev[i].v)
                [] ev[i].e = "ret"   -> "ret" \o ToString(ev[i].v)
                [] OTHER             -> "trap"]

\* features of a probe mismatch used to tell findings apart: how often the ideal fires p, how often the lowered
\* body does, and how many of the ideal firings happen on the way out of the function (the next original event
\* is the return): finding F-S24 loses exactly those and nothing else
NFire(ev, p) == Cardinality({x \in DOMAIN ev : ev[x].e = "probe" /\ ev[x].p = p})
NextOrig(ev, x) == LET later == {y \in DOMAIN ev : y > x /\ ev[y].e # "probe"} IN
                   IF later = {} THEN "none" ELSE ev[CHOOSE y \in later : \A z \in later : y <= z].e
NAtRet(ev, p) == Cardinality({x \in DOMAIN ev : ev[x].e = "probe" /\ ev[x].p = p /\ NextOrig(ev, x) \in {"ret", "none"}})

Compare ==
    IF mi.st \notin {"ret", "trap"} THEN TRUE          \* fuel exhausted / unconstrained path: not judged
    ELSE
    /\ Chk("exec_stuck", ml.st # "stuck", [pc |-> ml.pc])
    /\ ml.st = "stuck" \/
       IF NonProbe(mi.ev) # NonProbe(ml.ev) \/ ml.st # mi.st
       THEN Chk("orig_events_differ", FALSE, [ideal |-> Str(mi.ev), low |-> Str(ml.ev), st |-> ml.st])
       ELSE LET si == SortedSegs(mi.ev)
                sl == SortedSegs(ml.ev)
                bad == {p \in ProbesOf(mi.ev) \cup ProbesOf(ml.ev) :
                           \E s \in DOMAIN si : CountIn(si[s], p) # CountIn(sl[s], p)}
            IN \A p \in bad :
                  Chk("probe_mismatch", FALSE,
                      IF EntryOfProbe(p) = 0
                      THEN [mode |-> "none", api |-> "none", p |-> p, ideal |-> Str(mi.ev), low |-> Str(ml.ev)]
                      ELSE EntryD(EntryOfProbe(p)) @@
                           [p |-> p, ideal |-> Str(mi.ev), low |-> Str(ml.ev),
                            fn_only |-> (NFire(ml.ev, p) = NFire(mi.ev, p) - NAtRet(mi.ev, p)),
                            more |-> (Cardinality({x \in DOMAIN ml.ev : ml.ev[x].e = "probe" /\ ml.ev[x].p = p})
                                      > Cardinality({x \in DOMAIN mi.ev : mi.ev[x].e = "probe" /\ mi.ev[x].p = p}))])

StepLow ==
    /\ phase = "low"
    /\ IF ml.st # "run"
       THEN phase' = "done" /\ Compare /\ UNCHANGED <<ml, dr, dt>>
       ELSE /\ phase' = phase
            /\ LET B == C.low IN
               IF NeedsCond(B, ml)
               THEN LET k == B[ml.pc].k
                        n == ml.occ[k] + 1 IN
                    IF n <= Len(dr[k])
                    THEN ml' = XStep(ml, B, JTL[cid], C.arity, dr[k][n]) /\ UNCHANGED <<dr, dt>>
                    ELSE \E v \in {0, 1, 2} :
                            /\ dr' = [dr EXCEPT ![k] = Append(@, v)]
                            /\ ml' = XStep(ml, B, JTL[cid], C.arity, v)
                            /\ UNCHANGED dt
               ELSE IF NeedsTrap(B, ml)
               THEN LET n == ml.oct + 1 IN
                    IF n <= Len(dt)
                    THEN ml' = XStep(ml, B, JTL[cid], C.arity, dt[n]) /\ UNCHANGED <<dr, dt>>
                    ELSE \E v \in {0, 1} :
                            /\ dt' = Append(dt, v)
                            /\ ml' = XStep(ml, B, JTL[cid], C.arity, v)
                            /\ UNCHANGED dr
               ELSE ml' = XStep(ml, B, JTL[cid], C.arity, 0) /\ UNCHANGED <<dr, dt>>
    /\ UNCHANGED <<cid, mi>>

Next == Static \/ StepIdeal \/ StepLow
Spec == Init /\ [][Next]_vars

\* sanity of the two machines themselves (checked as invariants over every explored state)
MachinesOk ==
    /\ mi.st \in {"run", "ret", "trap", "fuel", "unc", "stuck"}
    /\ ml.st \in {"run", "ret", "trap", "fuel", "stuck"}
    /\ mi.st # "stuck"          \* the original bodies are valid by construction
    /\ mi.fuel <= Fuel /\ ml.fuel <= Fuel
=============================================================================
