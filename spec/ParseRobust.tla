----------------------------- MODULE ParseRobust -----------------------------
(***************************************************************************)
(* Robustness of Module::parse (C03): Impl-shaped model of the payload     *)
(* dispatch of parse_internal and of its post-loop assembly.  A binary is  *)
(* abstracted to a set of PARTS, each hitting one of the indexing / unwrap *)
(* sites found by reading the code; Outcome says what the code does NOW    *)
(* (every site guarded: Ok or Err), OutcomeOld what the pinned tree did    *)
(* (the sites that panicked; kept to document the repaired defects).       *)
(* Ideal: the outcome is never "panic".                                    *)
(***************************************************************************)
EXTENDS Naturals, Sequences, FiniteSets, TLC

ConstKinds == {"const", "global_get", "ref_func", "gc_const", "ext_const", "nonconst", "noend"}
\* where the name section sits: "front" = before every other section (the import count is not known yet),
\* "first" = after the imports, "before_code", "last"
NameAt     == {"front", "first", "before_code", "last"}

PartVariants ==
       {[p |-> "version", v |-> v] : v \in {"component", "bogus"}}
  \cup {[p |-> "name_func", idx |-> i, at |-> a] : i \in {"import", "local", "oob"}, a \in NameAt}
  \cup {[p |-> "name_local", v |-> v, at |-> a] : v \in {"ok", "truncated", "dup"}, a \in NameAt}
  \cup {[p |-> "func_type", idx |-> i] : i \in {"nonfunc", "oob"}}
  \cup {[p |-> "tag", v |-> v] : v \in {"ok", "badtype", "truncated"}}
  \cup {[p |-> "global_init", kind |-> k] : k \in ConstKinds}
  \cup {[p |-> "data_offset", kind |-> k] : k \in ConstKinds}
  \cup {[p |-> "start"], [p |-> "start", twice |-> TRUE]}
  \cup {[p |-> "data_count", v |-> v] : v \in {"ok", "mismatch"}}
  \cup {[p |-> "code", v |-> v] : v \in {"count_mismatch", "missing_end", "absent"}}
  \cup {[p |-> "producers", v |-> v] : v \in {"ok", "empty", "malformed", "none"}}
  \cup {[p |-> "unknown_section"]}

\* what each part makes parse do now: "ok" (continue) or "err"
PartNow(x) ==
    CASE x.p = "version"      -> "err"            \* a component / unknown version is not a module
      [] x.p = "name_func"    -> "ok"             \* applied after the loop; unknown indices ignored
      [] x.p = "name_local"   -> "ok"             \* malformed maps: readable prefix kept
      [] x.p = "func_type"    -> "err"            \* ConversionError: not a function type
      [] x.p = "tag"          -> IF x.v = "truncated" THEN "err" ELSE "ok"
      [] x.p \in {"global_init", "data_offset"}
                              -> IF x.kind \in {"const", "global_get", "ref_func"} THEN "ok" ELSE "err"
      [] x.p = "start"        -> IF "twice" \in DOMAIN x THEN "err" ELSE "ok"
      [] x.p = "data_count"   -> IF x.v = "mismatch" THEN "err" ELSE "ok"
      [] x.p = "code"         -> "err"
      [] x.p = "producers"    -> "ok"
      [] x.p = "unknown_section" -> "err"

\* the pinned tree: sites that panicked (before the fix: commits)
PartOld(x) ==
    CASE x.p = "name_func" /\ (x.idx = "oob" \/ (x.idx = "local" /\ x.at # "last")) -> "panic"
      [] x.p = "name_local" /\ x.v = "truncated" -> "panic"
      [] x.p = "func_type" -> "panic"
      [] x.p = "tag" /\ x.v = "truncated" -> "panic"
      [] x.p \in {"global_init", "data_offset"} /\ x.kind \in {"gc_const", "ext_const", "nonconst"} -> "panic"
      [] x.p = "producers" /\ x.v \in {"empty", "malformed", "none"} -> "panic"
      [] OTHER -> PartNow(x)

Outcome(parts) ==
    IF \E i \in DOMAIN parts : PartNow(parts[i]) = "err" THEN "err" ELSE "ok"

ASSUME \A x \in PartVariants : PartNow(x) \in {"ok", "err"}          \* Impl => Ideal: never a panic
ASSUME \E x \in PartVariants : PartOld(x) = "panic"                  \* the defects that were repaired
=============================================================================
