------------------------------ MODULE CompTrace ------------------------------
(***************************************************************************)
(* Validates real Component::parse / Component::encode round trips (C27):  *)
(* the item tree decoded from the output must equal the item tree decoded  *)
(* from the input (the Ideal round trip is the identity), the output must  *)
(* validate, and a second encode must give the same bytes.                 *)
(***************************************************************************)
EXTENDS Naturals, Integers, Sequences, FiniteSets, TLC, Json, IOUtils

Cases == ndJsonDeserialize(IOEnv.TRACE)
VARIABLES cid, judged
vars == <<cid, judged>>
C == Cases[cid]

RECURSIVE Depth(_)
Depth(items) ==
    LET ds == {IF items[i].k = "C" THEN 1 + Depth(items[i].kids) ELSE 1 : i \in DOMAIN items}
    IN IF ds = {} THEN 0 ELSE CHOOSE d \in ds : \A e \in ds : e <= d
RECURSIVE Size(_)
Size(items) ==
    LET RECURSIVE S(_) S(i) == IF i > Len(items) THEN 0
                              ELSE (IF items[i].k = "C" THEN 1 + Size(items[i].kids) ELSE 1) + S(i + 1)
    IN S(1)

Chk(c, ok, d) ==
    IF ok THEN TRUE
    ELSE PrintT(<<"VERDICT", ToJson([tr |-> C.id, c |-> c, d |-> d, depth |-> 1 + Depth(C.tree), size |-> Size(C.tree)])>>)

Init == cid \in 1 .. Len(Cases) /\ judged = FALSE
Judge ==
    /\ ~judged /\ judged' = TRUE /\ UNCHANGED cid
    /\ "skip" \in DOMAIN C \/
       /\ Chk("parse_failed", C.parse = "ok", [how |-> C.parse, msg |-> IF C.parse = "ok" THEN "" ELSE C.msg])
       /\ C.parse # "ok" \/
          /\ Chk("encode_panic", ~C.encode_panic, [msg |-> IF C.encode_panic THEN C.msg ELSE ""])
          /\ C.encode_panic \/
             /\ Chk("invalid", C.valid, [err |-> C.err])
             /\ Chk("tree_differs", C.out = C.tree, [nin |-> Size(C.tree), nout |-> Size(C.out)])
             /\ Chk("second_encode_differs", C.same2, [x |-> 0])
Spec == Init /\ [][Judge]_vars
=============================================================================
