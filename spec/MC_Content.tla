------------------------------ MODULE MC_Content ------------------------------
(***************************************************************************)
(* Bounded-exhaustive generator of content-addition programs, one campaign *)
(* per API group: "locals" (C14), "build" (C12), "types" (C13), "adds"     *)
(* (C30), "customs" (C28).  Drives the Ideal operators of Content.tla on a *)
(* symbolic state to keep programs meaningful and checks properties of the *)
(* Ideal itself.                                                           *)
(***************************************************************************)
EXTENDS Content, Json
CONSTANTS Camp, MaxOps
VARIABLES base, prog, nb
vars == <<base, prog, nb>>

Bases ==
    CASE Camp = "locals"  -> {[types |-> "plain", locals |-> l, customs |-> 0, comp |-> c, imp2 |-> FALSE] : l \in {"none", "a", "aa", "ab"}, c \in BOOLEAN}
                              \* two equal locals declared as two groups of one in the binary
                              \cup {[types |-> "plain", locals |-> "aa_split", customs |-> 0, comp |-> FALSE, imp2 |-> FALSE]}
                              \cup {[types |-> "plain", locals |-> "a", customs |-> 0, comp |-> FALSE, imp2 |-> TRUE]}
      [] Camp = "build"   -> {[types |-> t, locals |-> "a", customs |-> 0, comp |-> FALSE] : t \in {"plain", "rec"}}
                              \* the module inside a component: FunctionBuilder::finish_component
                              \cup {[types |-> "plain", locals |-> "a", customs |-> 0, comp |-> TRUE]}
      [] Camp = "types"   -> {[types |-> t, locals |-> "none", customs |-> 0] : t \in {"plain", "rec"}}
      [] Camp = "adds"    -> {[types |-> "plain", locals |-> "none", customs |-> 1]}
      [] Camp = "customs" -> {[types |-> "plain", locals |-> "none", customs |-> c, cpos |-> "end"] : c \in 0 .. 3}
                              \cup {[types |-> "plain", locals |-> "none", customs |-> c, cpos |-> q] : c \in 2 .. 3, q \in {"front", "spread"}}

LocalOps == {[op |-> "add_local", f |-> f, ty |-> t, via |-> v] :
                f \in {1, 2}, t \in {"i32", "f64"}, v \in {"modifier", "modifier_many", "iter"}}
\* on a module inside a component: the modifier of comp.modules[0] and ComponentIterator::add_local
CompLocalOps == {[op |-> "add_local", f |-> f, ty |-> t, via |-> v] : f \in {1, 2}, t \in {"i32", "v128"}, v \in {"modifier", "iter"}}

Bodies(results) ==
    IF results = <<>> THEN {<<>>, <<"nop">>, <<"i32_const_7", "drop">>, <<"call_0">>, <<"i64_const_m1", "drop", "nop">>,
                            \* bodies whose last built instruction closes a nested construct
                            <<"block", "end">>, <<"nop", "loop", "nop", "end">>, <<"i32_const_7", "if", "else", "nop", "end">>,
                            <<"block", "end", "nop">>}
    ELSE {<<"i32_const_7">>, <<"nop", "i32_const_7">>}
BuildOps ==
    {[op |-> "build", n |-> nb + 1, params |-> p, results |-> r, locals |-> l, body |-> b, name |-> nm, via |-> "module"] :
        p \in {<<>>, <<"i32">>, <<"i64", "f64">>}, r \in {<<>>, <<"i32">>},
        l \in {<<>>, <<"i32">>, <<"i64", "i64">>, <<"i32", "f64", "i32">>}, b \in Bodies(<<>>) \cup Bodies(<<"i32">>),
        nm \in {"", "nm"}}
ValidBuild(o) == o.body \in Bodies(o.results)
ReplaceOps ==
    {[op |-> "build", n |-> nb + 1, params |-> <<>>, results |-> <<>>, locals |-> l, body |-> b, name |-> "", via |-> "replace"] :
        l \in {<<>>, <<"i64", "i64">>}, b \in {<<>>, <<"i32_const_7", "drop">>}}

RefTys == {"anynull", "any", "eqnull", "eq", "structnull", "struct", "arraynull", "array", "i31null", "i31",
           "nonenull", "nofuncnull", "noexternnull", "func", "extern"}
TypeOps ==
       {[op |-> "add_type", kind |-> "func", params |-> p, results |-> r] :
            p \in {<<>>, <<"i32">>, <<"i64">>}, r \in {<<>>, <<"f32">>}}
  \cup {[op |-> "add_type", kind |-> "array", elem |-> e, mut |-> m] : e \in {"i64", "i8"}, m \in BOOLEAN}
  \cup {[op |-> "add_type", kind |-> "struct", fields |-> f] : f \in {<<>>, << <<"i32", FALSE>> >>, << <<"i32", TRUE>>, <<"f64", FALSE>> >>}}
  \cup {[op |-> "add_type", kind |-> "func", params |-> <<>>, results |-> <<>>, full |-> TRUE, final |-> FALSE, shared |-> FALSE],
        [op |-> "add_type", kind |-> "array", elem |-> "i64", mut |-> TRUE, full |-> TRUE, final |-> TRUE, shared |-> TRUE]}
  \* reference-typed parameters and fields: every abstract heap type, nullable and not
  \cup {[op |-> "add_type", kind |-> "func", params |-> <<t>>, results |-> <<>>] : t \in RefTys}
  \cup {[op |-> "add_type", kind |-> "struct", fields |-> << <<t, TRUE>> >>] : t \in {"arraynull", "eq", "i31null", "nofuncnull"}}
  \* declared subtypes of the base's open (non-final) struct type: same fields with and without the supertype are
  \* DIFFERENT types
  \cup {[op |-> "add_type", kind |-> "struct", fields |-> << <<"i32", FALSE>> >>, full |-> TRUE, final |-> f, shared |-> FALSE,
         super |-> (IF base.types = "plain" THEN 2 ELSE 6)] : f \in BOOLEAN}

Inits == {[k |-> "i32", v |-> "-1"], [k |-> "i64", v |-> "-9223372036854775808"], [k |-> "f32", v |-> "2141192193"],
          [k |-> "f64", v |-> "18444492273895866369"], [k |-> "v128", v |-> "340282366920938463463374607431768211455"],
          [k |-> "ref_func", id |-> 1], [k |-> "ref_null"], [k |-> "global", id |-> 1]}
TyOfInit(i) == CASE i.k \in {"ref_func", "ref_null"} -> "funcref" [] i.k = "global" -> "i32" [] OTHER -> i.k
AddOps ==
       {[op |-> "add_global", ty |-> TyOfInit(i), mut |-> m, init |-> i] : i \in Inits, m \in BOOLEAN}
  \cup {[op |-> "mod_init", g |-> 0, init |-> [k |-> "i32", v |-> "99"]]}
  \cup {[op |-> "add_data", kind |-> "passive", bytes |-> "00ff80"],
        [op |-> "add_data", kind |-> "active", mem |-> 0, off |-> [k |-> "i32", v |-> "16"], bytes |-> "6162"],
        \* offset global.get 1: the added immutable imported global (see the guard in Step)
        [op |-> "add_data", kind |-> "active", mem |-> 0, off |-> [k |-> "global", id |-> 1], bytes |-> "63"]}
  \cup {[op |-> "add_memory", kind |-> "local", initial |-> 2, max |-> 4, n |-> nb],
        [op |-> "add_memory", kind |-> "local", initial |-> 3, n |-> nb],
        [op |-> "add_memory", kind |-> "local", initial |-> 1, max |-> 2, m64 |-> TRUE, n |-> nb],
        \* imports added later move every local item of that index space up by one
        [op |-> "add_memory", kind |-> "import", initial |-> 5, max |-> 9, n |-> nb],
        [op |-> "add_iglobal", ty |-> "i32", mut |-> FALSE, n |-> nb],
        [op |-> "add_ifunc", n |-> nb]}
  \cup {[op |-> "add_export", kind |-> "func", id |-> 2, n |-> nb], [op |-> "add_export", kind |-> "mem", id |-> 0, n |-> nb]}

CustOps ==
       {[op |-> "cust_add", name |-> nm, bytes |-> "aa0" \o ToString(nb)] : nm \in {"c0", "new", "dylink.0"}}
  \cup {[op |-> "cust_del", id |-> i] : i \in 0 .. 3}
  \cup {[op |-> "cust_mod", id |-> i, bytes |-> "bb0" \o ToString(nb)] : i \in 0 .. 3}
  \* addressed by name (get_id): several sections may share a name; the lookup designates the first of them
  \cup {[op |-> "cust_del_name", name |-> nm] : nm \in {"c0", "new", "none"}}
  \cup {[op |-> "cust_mod_name", name |-> nm, bytes |-> "cc0" \o ToString(nb)] : nm \in {"c0", "new"}}

IsRefTyOp(o) == \/ (o.kind = "func" /\ Len(o.params) = 1 /\ o.params[1] \in RefTys)
                \/ (o.kind = "struct" /\ Len(o.fields) = 1 /\ o.fields[1][1] \in RefTys)
Ops == CASE Camp = "locals" -> (IF base.comp THEN CompLocalOps
                                ELSE IF base.imp2 THEN {[op |-> "add_local", f |-> f, ty |-> t, via |-> v] :
                                                           f \in {0, 1}, t \in {"i32", "f64"}, v \in {"modifier", "modifier_many", "iter"}}
                                ELSE LocalOps)
         [] Camp = "build" -> IF base.comp THEN {o \in BuildOps : ValidBuild(o)} \cup {o \in CompLocalOps : o.f = 2 /\ o.via = "iter" /\ o.ty = "v128"}
                              ELSE {o \in BuildOps : ValidBuild(o)} \cup ReplaceOps \cup {o \in LocalOps : o.f = 2 /\ o.via = "modifier" /\ o.ty = "f64"}
                                   \cup {[op |-> "conv", f |-> 2]}
         [] Camp = "types" -> TypeOps
         [] Camp = "adds" -> AddOps
         [] Camp = "customs" -> CustOps

Init == base \in Bases /\ prog = <<>> /\ nb = 0
Step == /\ Len(prog) < MaxOps
        /\ \E o \in Ops :
             /\ ~(o.op = "build" /\ o.via = "replace" /\ \E i \in DOMAIN prog : prog[i].op = "build" /\ prog[i].via = "replace")
             \* keep the pair space of the build campaign small: the second build is from a reduced set
             /\ (Camp = "build" /\ Len(prog) >= 1 /\ o.op = "build") =>
                    \/ o.via = "replace"
                    \/ (o.locals = <<"i64", "i64">> /\ o.params = <<>> /\ o.name = ""
                        /\ o.body \in {<<>>, <<"block", "end">>, <<"call_0">>, <<"i32_const_7">>})
             \* `call 0` designates the import: its index legitimately changes once that import is replaced
             /\ ~(o.op = "build" /\ \E i \in DOMAIN o.body : o.body[i] = "call_0"
                  /\ (o.via = "replace" \/ \E j \in DOMAIN prog : prog[j].op = "build" /\ prog[j].via = "replace"))
             /\ ~(o.op = "build" /\ o.via = "replace" /\ \E j \in DOMAIN prog : prog[j].op = "build"
                  /\ \E i \in DOMAIN prog[j].body : prog[j].body[i] = "call_0")
             \* converting local function 2 to an import: first step only; afterwards no replace, no call_0, no local on f2
             /\ (o.op = "conv" => prog = <<>>)
             /\ ((prog # <<>> /\ prog[1].op = "conv") =>
                    /\ o.op = "build" /\ o.via # "replace" /\ ~\E i \in DOMAIN o.body : o.body[i] = "call_0")
             \* global.get 1 in an initialiser: only when handle 1 is the added immutable imported global
             /\ ((o.op = "add_global" /\ o.init.k = "global") => (prog # <<>> /\ prog[1].op = "add_iglobal"))
             /\ ((o.op = "add_data" /\ o.kind = "active" /\ o.off.k = "global") => (prog # <<>> /\ prog[1].op = "add_iglobal"))
             \* the constant variety matters per call, not per combination: at most one non-i32 initialiser per program
             /\ ((o.op = "add_global" /\ o.init.k # "i32") => ~\E j \in DOMAIN prog : prog[j].op = "add_global" /\ prog[j].init.k # "i32")
             /\ ((o.op = "add_type" /\ IsRefTyOp(o)) => ~\E j \in DOMAIN prog : prog[j].op = "add_type" /\ IsRefTyOp(prog[j]))
             /\ prog' = Append(prog, o)
        /\ nb' = nb + 1 /\ UNCHANGED base
Next == Step
Spec == Init /\ [][Next]_vars

\* properties of the Ideal list semantics (checked on a symbolic expected state)
Sym == [types |-> <<"A", "B", "A">>, l1 |-> <<"I64">>, l2 |-> <<>>, p1 |-> 1, p2 |-> 0, funcs |-> <<>>, replaced |-> FALSE, converted |-> FALSE, rejected |-> FALSE, p0 |-> 2, l0 |-> <<"F64">>,
        globals |-> <<"g">>, mems |-> <<"m">>, data |-> <<"d">>, iglobals |-> <<>>, imems |-> <<>>,
        fh |-> <<TRUE, FALSE, FALSE>>, gh |-> <<FALSE>>, mh |-> <<FALSE>>, exports |-> {}, customs |-> <<[name |-> "c0", bytes |-> "x"], [name |-> "c1", bytes |-> "y"]>>]
IdealOk ==
    /\ AddType(AddType(Sym, "C"), "C").types = <<"A", "B", "A", "C">>           \* dedup, append once
    /\ AddType(Sym, "A") = Sym /\ TypePositions(Sym, "A") = {1, 3}               \* existing never change
    /\ AddLocalRet(AddLocal(Sym, 1, "i32"), 1) = 3                               \* params + previous locals
    /\ CustDel(Sym, 0).customs = <<[name |-> "c1", bytes |-> "y"]>> /\ CustDel(Sym, 5) = Sym
    /\ CustMod(Sym, 1, "z").customs[2].bytes = "z" /\ CustMod(Sym, 1, "z").customs[1] = Sym.customs[1]
    \* handles -> final indices: imports first, order kept; an added import moves locals up
    /\ FinalIdx(Sym, "f", 0) = 0 /\ FinalIdx(Sym, "f", 2) = 2
    /\ LET S2 == AddIFunc(Sym) IN FinalIdx(S2, "f", 3) = 1 /\ FinalIdx(S2, "f", 1) = 2 /\ FinalIdx(S2, "f", 2) = 3
    /\ LET S3 == AddMemory(AddIMemory(Sym, "im"), "lm") IN
          FinalIdx(S3, "m", 0) = 1 /\ FinalIdx(S3, "m", 1) = 0 /\ FinalIdx(S3, "m", 2) = 2 /\ S3.mems = <<"m", "lm">>
    /\ LET S4 == AddGlobal(AddIGlobal(Sym, "ig"), "lg") IN ModInit(S4, 2, "x").globals = <<"g", "x">>

EmitCase == prog # <<>> => PrintT(<<"REPLAY", ToJson([base |-> base, prog |-> prog])>>)
=============================================================================
