--------------------------- MODULE ModuleIdeal ---------------------------
(***************************************************************************)
(* Ideal (index-free) semantics of a wirm Module under edits.              *)
(*                                                                         *)
(* Entities of the three re-indexable spaces (functions "f", globals "g",  *)
(* memories "m") carry identity TOKENS.  A key is <<space, token>>.  Every  *)
(* place of the module that embeds an index is a SITE; a site WANTS a key   *)
(* (the entity the caller's ID designated when the site was created) and   *)
(* is OWNED by an entity (the function whose body holds it, the global     *)
(* whose initialiser holds it) or by the module itself (<<"x",0>>: exports, *)
(* start, element and data segments).                                      *)
(*                                                                         *)
(* The module is a record S = [ent, want, nm, free] manipulated by the     *)
(* pure operators below; the model-checking spec (MC_Module) and the trace *)
(* spec (ModuleTrace) both drive these same operators, so there is a single *)
(* source of truth for what an edit means.  The admissibility predicates   *)
(* at the end say which encoder outputs are acceptable (DESIGN.md B.3).    *)
(***************************************************************************)
EXTENDS Naturals, Integers, Sequences, FiniteSets, TLC

ModOwner == <<"x", 0>>          \* owner of module-level sites
Spaces   == {"f", "g", "m"}

\* maybe  : keys whose creating call panicked -- the call counts as rejected (B.4), so the
\*          entity is neither required nor forbidden in the output
\* mnames : names passed to a naming call that panicked -- likewise unconstrained
I_Empty == [ent |-> <<>>, want |-> <<>>, nm |-> <<>>, free |-> {}, maybe |-> {}, mnames |-> {}]

Known(S, k) == k \in DOMAIN S.ent
Live(S, k)  == Known(S, k) /\ S.ent[k].live
LiveKeys(S, sp) == {k \in DOMAIN S.ent : k[1] = sp /\ S.ent[k].live}
OwnerLive(S, o) == o = ModOwner \/ Live(S, o)

\* ---- edits ---------------------------------------------------------------
\* kind \in {"I","L"}; org \in {"base","add","conv","repl"} (provenance, used
\* only to attribute verdicts to properties)
I_AddEnt(S, k, kind, org) ==
    [S EXCEPT !.ent = (k :> [kind |-> kind, live |-> TRUE, org |-> org]) @@ @]

I_Delete(S, k) == [S EXCEPT !.ent[k].live = FALSE]

\* replace_import_in_module / convert_local_fn_to_import: entity `old`
\* disappears, `new` appears, every site that wanted `old` now wants `new`
\* ("makes every former use of it refer to ..."), names of `new` are not
\* constrained (the statements do not say what name it carries).
I_Retarget(S, old, new, kind, org) ==
    LET S1 == I_AddEnt(S, new, kind, org)
        S2 == [S1 EXCEPT !.ent[old].live = FALSE]
    IN  [S2 EXCEPT
           !.want = [s \in DOMAIN S2.want |->
                        IF S2.want[s].k = old
                        THEN [S2.want[s] EXCEPT !.k = new] ELSE S2.want[s]],
           !.free = @ \cup {new}]

\* a new reference site; owner = key of owning entity or ModOwner
I_AddSite(S, s, k, owner, sk) ==
    [S EXCEPT !.want = (s :> [k |-> k, owner |-> owner, sk |-> sk]) @@ @]

I_Maybe(S, k)      == [S EXCEPT !.maybe = @ \cup {k}]
I_MaybeName(S, n)  == [S EXCEPT !.mnames = @ \cup {n}]

I_RemoveSite(S, s) ==
    [S EXCEPT !.want = [t \in (DOMAIN S.want) \ {s} |-> S.want[t]]]

\* a name key nk is <<"f"|"g"|"m", tok>> or <<"l", ftok*16+localIdx>>; `e` is the
\* entity whose liveness decides whether the name must be present
I_SetName(S, nk, e, name) ==
    [S EXCEPT !.nm = (nk :> [name |-> name, ent |-> e]) @@ @]

\* ---- admissibility of an encoder output ----------------------------------
\* obsList : sequence of tokens, the index space of `sp` as decoded from the
\* output (-1 = entity not recognised)
EntMissing(S, sp, obsList) ==
    {k \in LiveKeys(S, sp) : \A i \in DOMAIN obsList : obsList[i] # k[2]}
EntDuplicated(S, sp, obsList) ==
    {k \in LiveKeys(S, sp) :
        Cardinality({i \in DOMAIN obsList : obsList[i] = k[2]}) > 1}
EntExtra(S, sp, obsList) ==
    {i \in DOMAIN obsList : ~Live(S, <<sp, obsList[i]>>) /\ <<sp, obsList[i]>> \notin S.maybe}

\* sites whose wanted entity is gone while their owner is still there
Dangling(S) ==
    {s \in DOMAIN S.want : OwnerLive(S, S.want[s].owner) /\ ~Live(S, S.want[s].k)}
\* sites that must be present and bound
Bound(S) ==
    {s \in DOMAIN S.want : OwnerLive(S, S.want[s].owner) /\ Live(S, S.want[s].k)}

\* obsSite(s) = token designated in the output at site s, or -2 when the site
\* is absent from the output
SiteOk(S, s, obsTok)       == obsTok = S.want[s].k[2]
DanglingOk(S, s, obsTok)   == obsTok = -2       \* absent (e.g. start section dropped)

\* names: obsNames is a set of records [nk, ent, name] decoded through the
\* output's own index -> token map.  Entities in S.free (created by a
\* conversion/replacement) are not constrained.
NameMissing(S, obsNames) ==
    {nk \in DOMAIN S.nm :
        /\ Live(S, S.nm[nk].ent) /\ S.nm[nk].ent \notin S.free
        /\ ~\E p \in obsNames : p.nk = nk /\ p.name = S.nm[nk].name}
NameWrong(S, obsNames) ==
    {p \in obsNames :
        /\ p.ent \notin S.free /\ p.ent \notin S.maybe /\ p.name \notin S.mnames
        /\ \/ p.nk \notin DOMAIN S.nm
           \/ S.nm[p.nk].name # p.name}
=============================================================================
