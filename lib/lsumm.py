#!/usr/bin/env python3
"""lsumm.py TRACE.ndjson TLC.out : summarise lowering-family verdicts by class with one example each"""
import json,collections,sys
sys.path.insert(0,'/verif/lib')
from vlib import tagged
cases={}
for l in open(sys.argv[1]):
    c=json.loads(l); cases[c['id']]=c
cnt=collections.Counter(); ex={}
def f(i):
    o=i['o']; return o+''.join(str(i[k]) for k in ('k','p','d','x','v','r','ds') if k in i and not (k=='r' and i[k]==0))
for v in tagged(sys.argv[2],'VERDICT'):
    d=v['d']; c=cases[v['tr']]
    key=(v['c'],d.get('mode'),d.get('api'),d.get('sop'),d.get('tfn'),v.get('overlap'), tuple(v['modes']) if 'mode' not in d else None)
    cnt[key]+=1; ex.setdefault(key,(v,c))
for k,n in cnt.most_common():
    v,c=ex[k]
    print(n,k)
    print('     orig:',' '.join(f(i) for i in c['orig']),'| plan:',[(e['site'],e['mode'],e['api'],e['acc']) for e in c['plan']])
    print('     low :',' '.join(f(i) for i in c['low']), '|', {a:b for a,b in v['d'].items() if a in ('ideal','low','err','msg','want','got')})
