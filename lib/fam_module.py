#!/usr/bin/env python3
"""Module family campaign (C04-C11, C29): TLC generates edit histories (MC_Module), the harness
replays them on the real API, TLC validates the recorded traces against ModuleIdeal
(ModuleTrace).  One campaign serves all properties of the family (stage cache)."""
import json, os, time
from vlib import *

PROPS = ["C04", "C05", "C06", "C07", "C08", "C09", "C10", "C11", "C29"]

OBSERVERS = ("inject_", "set_name_", "remove_site")


def structural(ops):
    return [o for o in ops if not o.startswith(OBSERVERS) and not o.endswith("!")]


def props_of(rec):
    """which properties a verdict record speaks about (DESIGN.md 5.1)"""
    c = rec["c"]
    camp = rec.get("camp")
    sp = rec.get("sp") or camp
    ops = rec.get("ops", [])
    st = set(structural(ops))
    out = set()
    space_prop = {"f": "C06", "g": "C07", "m": "C08"}
    if c == "nondeterministic":
        return {"C04"}
    if c == "second_encode_differs":
        return {"C05"}
    if c in ("name_missing", "name_wrong"):
        return {"C29"}
    if c in ("ref", "handle_collision", "call_panicked"):
        out.add(space_prop.get(sp, "C06"))
    if c in ("invalid", "encode_panic", "parse_fail", "conv_refused_on_local", "conv_accepted_on_import"):
        out.add(space_prop.get(camp, "C06"))
    deletes = any(o.startswith("delete_") for o in ops)
    if c == "dangling_silent":
        out.add("C09")
    if c in ("ent_missing", "ent_extra", "ent_dup"):
        if deletes:
            out.add("C09")
        else:
            out.add(space_prop.get(sp, "C06"))
    if c == "encode_panic" and deletes:
        out.add("C09")
    # a history of deletions only: every surviving entity keeps its identity (C09)
    if c in ("ref", "invalid") and st and all(o.startswith("delete_") for o in st):
        out.add("C09")
    # replacements, possibly followed by deleting what was built ("in combination with other edits")
    if "replace_import" in st and st <= {"replace_import", "delete_f"} and c not in ("name_missing", "name_wrong"):
        out.add("C10")
    if "conv_l2i" in st and st <= {"conv_l2i", "add_fI"} and c not in ("name_missing", "name_wrong"):
        out.add("C11")
    return out


def flat(v, camp):
    r = {"c": v["c"], "tr": v["tr"], "l": v["l"], "ops": sorted(v.get("ops", [])), "camp": camp}
    for k, val in v.get("d", {}).items():
        r[k] = val
    return r


def campaign(tier, seed):
    """returns result dict; cached per (repo tree, verif tree, tier, seed)"""
    with Stage("module", tier, seed) as st:
        if st.fresh():
            return st.load()
        t0 = time.time()
        build_harness()
        maxops = 3 if tier == "quick" else 4
        res = {"camps": {}, "records": [], "states": 0, "transitions": 0, "traces": 0, "events": 0,
               "samples": [], "mc": {}}
        # design level: the Impl-shaped transcription of the re-indexing algorithm (Reorg.tla) meets its Ideal on
        # every item vector up to MaxN; ModuleTrace then checks that the real encoder agrees with the transcription
        rcfg = st.path("MC_Reorg.cfg")
        maxn = 5 if tier == "quick" else 6
        open(rcfg, "w").write("SPECIFICATION Spec\nCONSTANT MaxN = %d\nINVARIANTS NowOk MappingOk Idem\nCHECK_DEADLOCK FALSE\n" % maxn)
        rout = st.path("reorg.out")
        rg = run_tlc("MC_Reorg", rcfg, rout, workers=8, timeout=3000)
        if not rg["ok"]:
            raise ToolError("MC_Reorg: the transcribed re-indexing violates its Ideal or did not complete: %s" % rg["error"])
        os.remove(rout)
        res["states"] += rg["distinct"]
        res["transitions"] += rg["generated"]
        drift, predicted = 0, 0
        for camp in ("f", "g", "m"):
            cfg = st.path("MC_Module_%s.cfg" % camp)
            open(cfg, "w").write(
                'SPECIFICATION Spec\nCONSTANTS MaxOps = %d\n Camp = "%s"\n MaxObs = 1\n MidEnc = FALSE\n'
                'INVARIANTS TypeOK RetargetKills Emit\nCHECK_DEADLOCK FALSE\n' % (maxops, camp))
            mc_out = st.path("mc_%s.out" % camp)
            mc = run_tlc("MC_Module", cfg, mc_out, workers=8, timeout=3000)
            if not mc["ok"]:
                raise ToolError("MC_Module(%s) did not complete cleanly: %s" % (camp, mc["error"]))
            cases = st.path("cases_%s.ndjson" % camp)
            n = extract_cases(mc_out, cases)
            os.remove(mc_out)
            trace = st.path("trace_%s.ndjson" % camp)
            # process 1 writes output hashes, process 2 compares (cross-process determinism); supervised per slice
            hstat, aborts = run_harness(
                lambda c, t, tag: [[BIN, "module", "--cases", c, "--out", t, "--reps", "1", "--hashes-out", c + ".hashes"],
                                   [BIN, "module", "--cases", c, "--out", t, "--reps", "2", "--hashes-in", c + ".hashes"]],
                cases, trace, chunk=1500, par=6)
            for a in aborts:
                res["records"].append(dict(a, camp=camp, l=0, ops=[]))
            tv_out = st.path("tv_%s.out" % camp)
            # one TLC run per group of whole histories (a history starts with its base event)
            tv = run_tlc_trace("ModuleTrace", os.path.join(SPEC, "ModuleTrace.cfg"), trace, tv_out, workers=1,
                               chunk=15000, par=12, boundary=lambda line: '"t":"base"' in line, deque=True, timeout=3000)
            if not tv["ok"] or tv["distinct"] != hstat["events"] + tv["chunks"]:
                raise ToolError("trace validation did not consume all events (camp %s): %s / %s vs %s"
                                % (camp, tv["error"], tv["distinct"], hstat["events"]))
            drift += sum(1 for _ in tagged(tv_out, "SPEC-DRIFT"))
            recs = [flat(v, camp) for v in tagged(tv_out, "VERDICT")]
            # dedup (TLC may evaluate an action twice)
            seen = set()
            for r in recs:
                key = json.dumps(r, sort_keys=True)
                if key not in seen:
                    seen.add(key)
                    res["records"].append(r)
            os.remove(tv_out)
            res["mc"][camp] = {"distinct": mc["distinct"], "generated": mc["generated"], "histories": n,
                               "maxops": maxops}
            res["detail"] = {"model_checking": res["mc"], "events_validated": 0,
                             "reorg_model": {"MaxN": maxn, "vectors": rg["distinct"], "invariants": ["NowOk", "MappingOk", "Idem"],
                                             "drift_vs_real_encoder": drift}}
            res["states"] += mc["distinct"] + tv["distinct"]
            res["transitions"] += mc["generated"] + tv["generated"]
            res["traces"] += hstat["traces"]
            res["events"] += hstat["events"]
            with open(cases) as f:
                for i, l in enumerate(f):
                    if i in (0, n // 2, n - 1):
                        res["samples"].append(json.loads(l))
        res["wall_s"] = round(time.time() - t0, 1)
        res["detail"]["events_validated"] = res["events"]
        res["detail"]["reorg_model"]["drift_vs_real_encoder"] = drift
        if drift:
            print("SPEC-DRIFT: %d encodes whose index-space order differs from the transcribed re-indexing (Reorg.tla)" % drift)
        st.store(res)
        return res


def case_of(stage_dir, camp, tr):
    with open(os.path.join(stage_dir, "cases_%s.ndjson" % camp)) as f:
        for l in f:
            c = json.loads(l)
            if c["id"] == tr:
                return c
    return None


NAME = "module"


def write_replay(r, tier, path):
    stage_dir = os.path.join(WORK, "stage", "module-" + tier)
    json.dump({"family": "module", "case": case_of(stage_dir, r["camp"], r["tr"]), "record": r},
              open(path, "w"), indent=1)


def replay(prop, path):
    """re-run one stored case: harness on the real code + ModuleTrace judgement"""
    rp = json.load(open(path))
    build_harness()
    d = os.path.join(WORK, "replay-run")
    os.makedirs(d, exist_ok=True)
    case = rp["case"]
    case["id"] = 1
    cases = os.path.join(d, "cases.ndjson")
    open(cases, "w").write(json.dumps(case) + "\n")
    trace = os.path.join(d, "trace.ndjson")
    if replay_abort(prop, path, [[BIN, "module", "--cases", cases, "--out", trace, "--reps", "3"]]):
        return 1
    tv_out = os.path.join(d, "tv.out")
    tv = run_tlc("ModuleTrace", os.path.join(SPEC, "ModuleTrace.cfg"), tv_out, workers=1,
                 env={"TRACE": trace}, deque=True, timeout=600)
    if not tv["ok"]:
        raise ToolError("trace validation failed: %s" % tv["error"])
    camp = rp.get("record", {}).get("camp", "f")
    recs = [flat(v, camp) for v in tagged(tv_out, "VERDICT")]
    recs = [r for r in recs if prop in props_of(r)]
    for l in open(trace):
        print("EVENT", l.strip()[:400])
    findings = load_findings()
    rc, n, known = finish(prop, recs, findings, lambda r: path)
    return rc
