#!/usr/bin/env python3
"""Component nesting family (C27): CompNest.tla enumerates nested component trees (and checks that the
implemented parse algorithm, transcribed as ParseNew, reconstructs every tree from its payload stream);
the harness builds each tree with wasm-encoder and round-trips it through Component::parse/encode;
CompTrace.tla judges decoded output tree = decoded input tree, validity and idempotence."""
import json, os, time
from vlib import *

NAME = "comp"
PROPS = ["C27"]
SERVES = PROPS


def props_of(r):
    return {"C27"}


def campaign(tier, seed):
    with Stage("comp", tier, seed) as st:
        if st.fresh():
            return st.load()
        t0 = time.time()
        build_harness()
        items, depth = (5, 4) if tier == "quick" else (7, 5)
        cfg = st.path("CompNest.cfg")
        open(cfg, "w").write("SPECIFICATION Spec\nCONSTANTS MaxItems = %d\n MaxDepth = %d\n"
                             "INVARIANTS RoundTrip EmitCase\nCHECK_DEADLOCK FALSE\n" % (items, depth))
        mc_out = st.path("mc.out")
        mc = run_tlc("CompNest", cfg, mc_out, workers=8, timeout=6000)
        if not mc["ok"]:
            raise ToolError("CompNest did not complete cleanly: %s" % mc["error"])
        cases = st.path("cases.ndjson")
        n = extract_cases(mc_out, cases)
        os.remove(mc_out)
        trace = st.path("trace.ndjson")
        hstat, aborts = run_harness(lambda c, t, tag: [[BIN, "comp", "--cases", c, "--out", t]], cases, trace, chunk=8000, par=6)
        tv_out = st.path("tv.out")
        tv = run_tlc_trace("CompTrace", os.path.join(SPEC, "CompTrace.cfg"), trace, tv_out, workers=3, chunk=30000, par=5, timeout=6000)
        if not tv["ok"]:
            raise ToolError("CompTrace did not complete: %s" % tv["error"])
        recs = []
        for v in tagged(tv_out, "VERDICT"):
            r = {"c": v["c"], "tr": v["tr"], "depth": v["depth"], "size": v["size"]}
            r.update(v.get("d", {}))
            recs.append(r)
        recs += aborts
        os.remove(tv_out)
        samples = []
        with open(cases) as f:
            for i, l in enumerate(f):
                if i in (n // 3, n // 2, n - 1):
                    samples.append(json.loads(l))
        res = {"records": recs, "states": mc["distinct"] + tv["distinct"], "transitions": mc["generated"] + tv["generated"],
               "traces": hstat["cases"] - hstat["skipped"], "samples": samples, "relevant": {"C27": n},
               "detail": {"model_checking": {"MaxItems": items, "MaxDepth": depth, "trees": n,
                                             "invariant": "RoundTrip (ParseNew(Flatten(t)) = t), ASSUME ParseOld wrong on the depth-3 witness"}},
               "wall_s": round(time.time() - t0, 1)}
        st.store(res)
        return res


def write_replay(r, tier, path):
    case = None
    with open(os.path.join(WORK, "stage", "comp-" + tier, "cases.ndjson")) as f:
        for l in f:
            c = json.loads(l)
            if c["id"] == r["tr"]:
                case = c
    json.dump({"family": "comp", "case": case, "record": r}, open(path, "w"), indent=1)


def replay(prop, path):
    rp = json.load(open(path))
    build_harness()
    d = os.path.join(WORK, "replay-run")
    os.makedirs(d, exist_ok=True)
    cases = os.path.join(d, "ccases.ndjson")
    open(cases, "w").write(json.dumps(rp["case"]) + "\n")
    trace = os.path.join(d, "ctrace.ndjson")
    sh([BIN, "comp", "--cases", cases, "--out", trace], timeout=600)
    tv_out = os.path.join(d, "ctv.out")
    tv = run_tlc("CompTrace", os.path.join(SPEC, "CompTrace.cfg"), tv_out, workers=1, env={"TRACE": trace}, timeout=600)
    print("CASE", open(trace).read()[:3000])
    recs = [dict({"c": v["c"], "tr": v["tr"], "fam": NAME}, **v.get("d", {})) for v in tagged(tv_out, "VERDICT")]
    rc, n, known = finish(prop, recs, load_findings(), lambda r: path)
    return rc
