#!/usr/bin/env python3
"""showtrace.py TRACE.ndjson TR [TR...] : print the events of the given traces compactly"""
import json,sys
want=set(int(x) for x in sys.argv[2:])
for l in open(sys.argv[1]):
    e=json.loads(l)
    if e.get('tr') in want:
        if e['t']=='base':
            print('BASE tr=%d ents=%s imps=%s nsites=%d'%(e['tr'],[(x['k'],x['kind'],x['id']) for x in e['ents']],e['imps'],len(e['sites'])))
        elif e['t']=='encode':
            if e['panic']: print('  ENCODE PANIC',e['msg'])
            else: print('  ENCODE valid=%s f=%s g=%s m=%s same2=%s nd=%s err=%s'%(e['valid'],e['f'],e['g'],e['m'],e['same2'],e['nd'],e['err']))
        else:
            print('  ',{k:v for k,v in e.items() if k not in('t','tr')})
