#!/usr/bin/env python3
"""Shared driver library: cargo / TLC invocation, TLC output parsing, stage cache, verdict
classification against known_findings.json, evidence writing.

Exit-code contract of every check (bin/check):
  0  property held on everything explored (KNOWN-FINDING lines may have been printed)
  1  VIOLATION property=<id> replay=<path>   (an unlisted violation of the property)
  2  tool failure (build error, TLC crash, timeout, malformed trace) -- never a verdict
"""
import hashlib, json, os, re, subprocess, sys, time, fcntl, glob

ROOT = os.path.dirname(os.path.dirname(os.path.abspath(__file__)))
REPO = os.environ.get("VERIF_REPO", "/repo")
SPEC = os.path.join(ROOT, "spec")
WORK = os.path.join(ROOT, "work")
HARNESS = os.path.join(ROOT, "harness")
BIN = os.path.join(HARNESS, "target", "release", "conform")


class ToolError(Exception):
    pass


def log(*a):
    print(*a, file=sys.stderr, flush=True)


def sh(cmd, timeout=None, env=None, cwd=None, stdout=None):
    e = dict(os.environ)
    if env:
        e.update(env)
    t0 = time.time()
    try:
        p = subprocess.run(cmd, shell=isinstance(cmd, str), cwd=cwd, env=e, timeout=timeout,
                           stdout=stdout or subprocess.PIPE, stderr=subprocess.STDOUT, text=True)
    except subprocess.TimeoutExpired:
        raise ToolError("timeout after %ss: %s" % (timeout, cmd))
    return p.returncode, (p.stdout or ""), time.time() - t0


# ------------------------------------------------------------------------------------------
# repository fingerprint and build
# ------------------------------------------------------------------------------------------
def repo_hash():
    h = hashlib.sha256()
    files = sorted(glob.glob(os.path.join(REPO, "src", "**", "*.rs"), recursive=True))
    files += [os.path.join(REPO, "Cargo.toml"), os.path.join(REPO, "Cargo.lock")]
    for f in files:
        if os.path.exists(f):
            h.update(f.encode())
            h.update(open(f, "rb").read())
    return h.hexdigest()[:16]


def verif_hash():
    h = hashlib.sha256()
    files = sorted(glob.glob(os.path.join(SPEC, "*.tla")) + glob.glob(os.path.join(SPEC, "*.cfg")))
    files += sorted(glob.glob(os.path.join(HARNESS, "src", "**", "*.rs"), recursive=True))
    files += sorted(glob.glob(os.path.join(ROOT, "lib", "*.py")))
    files += [os.path.join(ROOT, "bin", "check"), os.path.join(ROOT, "known_findings.json")]
    for f in files:
        if os.path.exists(f):
            h.update(f.encode())
            h.update(open(f, "rb").read())
    return h.hexdigest()[:16]


def build_harness():
    """(Re)build the harness against /repo's current working tree. Incremental."""
    os.makedirs(WORK, exist_ok=True)
    lock = open(os.path.join(WORK, "build.lock"), "w")
    fcntl.flock(lock, fcntl.LOCK_EX)
    try:
        env = {"CARGO_NET_OFFLINE": "true"}
        rc, out, dt = sh("cargo build --release --offline", cwd=HARNESS, env=env, timeout=1500)
        if rc != 0:
            log(out[-4000:])
            raise ToolError("harness build failed (does /repo still compile?)")
        return dt
    finally:
        fcntl.flock(lock, fcntl.LOCK_UN)


# ------------------------------------------------------------------------------------------
# TLC
# ------------------------------------------------------------------------------------------
def tagged(path, tag):
    """yield the JSON payloads of <<"TAG", "json">> lines printed by TLC"""
    pre = '<<"%s", "' % tag
    with open(path, errors="replace") as f:
        for l in f:
            if l.startswith(pre):
                b = l.rstrip("\n")[len(pre):-len('">>')]
                yield json.loads(b.replace('\\"', '"').replace("\\\\", "\\"))


STAT_RE = re.compile(r"^(\d+) states generated, (\d+) distinct states found, (\d+) states left")


def tlc_stats(path):
    st = {"generated": 0, "distinct": 0, "left": 0, "ok": False, "error": None, "coverage": {}}
    with open(path, errors="replace") as f:
        for l in f:
            m = STAT_RE.match(l)
            if m:
                st["generated"], st["distinct"], st["left"] = int(m.group(1)), int(m.group(2)), int(m.group(3))
            if l.startswith("Model checking completed. No error has been found"):
                st["ok"] = True
            if l.startswith("Error:") and st["error"] is None:
                st["error"] = l.strip()
            m = re.match(r"^<(\w+) line \d+, col \d+ to line \d+, col \d+ of module (\w+)>: (\d+):(\d+)", l)
            if m:
                st["coverage"][m.group(1)] = st["coverage"].get(m.group(1), 0) + int(m.group(4))
    return st


def run_tlc(module, cfg, out, workers=8, env=None, timeout=1800, deque=False, extra="", simulate=None):
    """Run TLC on spec/<module>.tla with spec/<cfg>; output to file `out`. Returns stats dict."""
    md = out + ".md"
    tmpd = out + ".tmp"
    os.makedirs(tmpd, exist_ok=True)
    jopts = "-Xss1g -Djava.io.tmpdir=" + tmpd
    if deque:
        jopts += " -Dtlc2.tool.queue.IStateQueue=StateDeque"
    e = {"JAVA_TOOL_OPTIONS": jopts}
    if env:
        e.update(env)
    sim = ""
    if simulate:
        sim = " -simulate num=%d -depth %d" % simulate
    cmd = ("timeout %d tlc -workers %s%s -metadir %s -cleanup -noGenerateSpecTE %s -config %s %s.tla"
           % (timeout, workers, sim, md, extra, cfg, module))
    with open(out, "w") as f:
        rc, _, dt = sh(cmd, cwd=SPEC, env=e, stdout=f, timeout=timeout + 30)
    subprocess.run(["rm", "-rf", md, tmpd])
    st = tlc_stats(out)
    st["rc"] = rc
    st["wall_s"] = round(dt, 1)
    if rc == 124:
        raise ToolError("TLC timed out: %s" % cmd)
    return st


def run_harness(cmds, cases, trace, chunk=4000, par=4, case_timeout=60, chunk_timeout=3000):
    """Supervised execution of the Rust harness.  `cmds(cases_path, trace_path, tag)` returns the list of argv lists to
    run (in order) for one slice of the cases; the last command's last stdout line is a JSON statistics object.
    The cases file is processed in slices of `chunk` lines, `par` at a time.  A slice whose process dies (abort:
    allocation failure, stack overflow, signal) or exceeds its timeout is re-run case by case; a case whose own
    process dies or hangs becomes an ABORT RECORD {c: process_abort|process_hang, tr: id, msg} instead of trace
    events.  A panic is caught inside the harness (catch_unwind) and never gets here; what gets here would take the
    user's process down too.  Returns (merged statistics, abort records)."""
    import concurrent.futures
    base = trace + ".slices"
    subprocess.run(["rm", "-rf", base])
    os.makedirs(base)
    lines = open(cases).read().splitlines()
    slices = []
    for i in range(0, len(lines), chunk):
        pth = os.path.join(base, "c%05d.ndjson" % len(slices))
        open(pth, "w").write("\n".join(lines[i:i + chunk]) + "\n")
        slices.append(pth)

    def run_slice(cpath, timeout):
        """-> (ok, stat or None, message)"""
        tpath = cpath + ".trace"
        stat = None
        for argv in cmds(cpath, tpath, os.path.basename(cpath)):
            try:
                p = subprocess.run(argv, stdout=subprocess.PIPE, stderr=subprocess.STDOUT, text=True, timeout=timeout)
            except subprocess.TimeoutExpired:
                return False, None, "hang: no result after %ss" % timeout
            if p.returncode != 0:
                return False, None, "exit %s: %s" % (p.returncode, (p.stdout or "")[-600:].replace("\n", " | "))
            try:
                stat = json.loads(p.stdout.strip().splitlines()[-1])
            except Exception:
                stat = {}
        return True, stat, ""

    n_aborts = [0]

    def first_id(cpath):
        try:
            return json.loads(open(cpath).readline()).get("id")
        except Exception:
            return None

    def do(cpath):
        ok, stat, msg = run_slice(cpath, chunk_timeout)
        if ok:
            return [(cpath + ".trace", stat)], []
        if n_aborts[0] >= 12:
            # enough isolated witnesses: the rest of the failing slices are reported as a whole
            return [], [{"c": "process_hang" if msg.startswith("hang") else "process_abort", "tr": first_id(cpath),
                         "msg": "(slice not isolated) " + msg[:300]}]
        # isolate: one process per case
        outs, aborts = [], []
        for k, line in enumerate(open(cpath).read().splitlines()):
            if n_aborts[0] >= 12:
                break
            one = "%s.%d" % (cpath, k)
            open(one, "w").write(line + "\n")
            ok1, st1, msg1 = run_slice(one, case_timeout)
            if ok1:
                outs.append((one + ".trace", st1))
            else:
                try:
                    cid = json.loads(line).get("id")
                except Exception:
                    cid = None
                aborts.append({"c": "process_hang" if msg1.startswith("hang") else "process_abort", "tr": cid, "msg": msg1[:400]})
                n_aborts[0] += 1
        return outs, aborts

    with concurrent.futures.ThreadPoolExecutor(max_workers=par) as ex:
        results = list(ex.map(do, slices))
    merged, aborts = {}, []
    with open(trace, "w") as o:
        for outs, ab in results:
            aborts += ab
            for tpath, stat in outs:
                if os.path.exists(tpath):
                    with open(tpath) as f:
                        for line in f:
                            o.write(line)
                for k, v in (stat or {}).items():
                    if isinstance(v, (int, float)) and not isinstance(v, bool):
                        merged[k] = merged.get(k, 0) + v
                    else:
                        merged.setdefault(k, v)
    subprocess.run(["rm", "-rf", base])
    return merged, aborts


ABORT_CLASSES = ("process_abort", "process_hang")


def run_tlc_trace(module, cfg, trace, out, workers=2, chunk=20000, par=6, boundary=None, env=None, timeout=6000, deque=False):
    """Trace validation of a (possibly large) ndjson trace: the trace is cut into chunks of about `chunk` lines
    (only at lines for which boundary(line) holds, when given: e.g. the first event of a history), one TLC run per
    chunk, up to `par` runs at a time; the outputs are concatenated into `out`.  TLC's Json module deserialises
    the whole file into memory before the first state, so one run over a 250 MB trace does not finish."""
    import concurrent.futures
    parts, cur, n = [], None, 0
    base = out + ".chunks"
    subprocess.run(["rm", "-rf", base])
    os.makedirs(base)
    with open(trace) as f:
        for line in f:
            if cur is None or (n >= chunk and (boundary is None or boundary(line))):
                if cur:
                    cur.close()
                parts.append(os.path.join(base, "part%04d.ndjson" % len(parts)))
                cur = open(parts[-1], "w")
                n = 0
            cur.write(line)
            n += 1
    if cur:
        cur.close()

    def one(pth):
        e = dict(env or {})
        e["TRACE"] = pth
        return run_tlc(module, cfg, pth + ".out", workers=workers, env=e, timeout=timeout, deque=deque)

    if len(parts) <= 1:
        stats = [one(p) for p in parts]
    else:
        with concurrent.futures.ThreadPoolExecutor(max_workers=par) as ex:
            stats = list(ex.map(one, parts))
    with open(out, "w") as o:
        for pth in parts:
            with open(pth + ".out") as f:
                for line in f:
                    o.write(line)
    bad = [s for s in stats if not s["ok"]]
    st = {"ok": not bad, "error": bad[0]["error"] if bad else None,
          "distinct": sum(s["distinct"] for s in stats), "generated": sum(s["generated"] for s in stats),
          "chunks": len(parts), "wall_s": round(sum(s["wall_s"] for s in stats), 1), "rc": max([s["rc"] for s in stats] or [0])}
    subprocess.run(["rm", "-rf", base])
    return st


def extract_cases(tlc_out, dest, tag="REPLAY", limit=None, start_id=1):
    n = 0
    with open(dest, "w") as o:
        for c in tagged(tlc_out, tag):
            if limit is not None and n >= limit:
                break
            c["id"] = start_id + n
            n += 1
            o.write(json.dumps(c) + "\n")
    return n


# ------------------------------------------------------------------------------------------
# stage cache: one campaign serves several properties
# ------------------------------------------------------------------------------------------
class Stage:
    def __init__(self, name, tier, seed):
        self.key = "%s-%s-%s-%s-%s" % (name, tier, seed, repo_hash(), verif_hash())
        self.dir = os.path.join(WORK, "stage", name + "-" + tier)
        os.makedirs(self.dir, exist_ok=True)
        self.lockf = open(os.path.join(self.dir, ".lock"), "w")

    def __enter__(self):
        fcntl.flock(self.lockf, fcntl.LOCK_EX)
        return self

    def __exit__(self, *a):
        fcntl.flock(self.lockf, fcntl.LOCK_UN)

    def path(self, f):
        return os.path.join(self.dir, f)

    def fresh(self):
        try:
            return open(self.path("KEY")).read() == self.key and os.path.exists(self.path("result.json"))
        except OSError:
            return False

    def load(self):
        return json.load(open(self.path("result.json")))

    def store(self, result):
        json.dump(result, open(self.path("result.json"), "w"))
        open(self.path("KEY"), "w").write(self.key)


# ------------------------------------------------------------------------------------------
# known findings
# ------------------------------------------------------------------------------------------
def load_findings():
    p = os.path.join(ROOT, "known_findings.json")
    if not os.path.exists(p):
        return []
    return json.load(open(p)).get("findings", [])


def match_finding(rec, findings, prop):
    """rec: flat dict describing one violation record. A finding matches when it is open, names the
    property (or lists it under `properties`) and every field of its `match` equals the record's
    (a list value in `match` means: any of).  Special match keys: ops_all / ops_any / ops_none on
    the record's `ops` list."""
    for f in findings:
        if f.get("status") != "open":
            continue
        if prop not in ([f.get("property")] + f.get("properties", [])):
            continue
        ok = True
        for k, v in f.get("match", {}).items():
            if k == "ops_all":
                ok = all(x in rec.get("ops", []) for x in v)
            elif k == "ops_any":
                ok = any(x in rec.get("ops", []) for x in v)
            elif k == "ops_none":
                ok = not any(x in rec.get("ops", []) for x in v)
            elif k.endswith("_min"):
                ok = isinstance(rec.get(k[:-4]), (int, float)) and rec.get(k[:-4]) >= v
            elif k.endswith("_re"):
                ok = re.search(v, str(rec.get(k[:-3], ""))) is not None
            elif isinstance(v, list):
                ok = rec.get(k) in v
            else:
                ok = rec.get(k) == v
            if not ok:
                break
        if ok:
            return f
    return None


# ------------------------------------------------------------------------------------------
# evidence
# ------------------------------------------------------------------------------------------
def write_evidence(prop, tier, seed, coverage, assumptions, wall_s, violations, level="model_checking"):
    os.makedirs(os.path.join(ROOT, "evidence"), exist_ok=True)
    ev = {"property_id": prop, "tier": tier, "seed": int(seed), "level": level,
          "coverage": coverage, "assumptions": assumptions, "wall_s": round(wall_s, 1),
          "violations": int(violations)}
    p = os.path.join(ROOT, "evidence", prop + ".json")
    json.dump(ev, open(p, "w"), indent=1)
    return p


def finish(prop, records, findings, replay_writer):
    """Classify violation records of one property; print KNOWN-FINDING / VIOLATION lines.
    records: list of flat dicts (each has at least 'c' and 'tr').  Returns (exit_code, n_unknown,
    known_hits)."""
    known = {}
    unknown = []
    for r in records:
        f = match_finding(r, findings, prop)
        if f:
            known.setdefault(f["id"], [f, 0])[1] += 1
        else:
            unknown.append(r)
    for fid, (f, n) in sorted(known.items()):
        print("KNOWN-FINDING: property=%s %s [%s, %d record(s) this run]" % (prop, f["what"], fid, n))
    if unknown:
        # one replay file per distinct violation class, first occurrence
        seen = set()
        for r in unknown:
            cls = (r.get("c"), r.get("sp"), r.get("sk"), r.get("org"), r.get("mode"))
            if cls in seen:
                continue
            seen.add(cls)
            path = replay_writer(r)
            print("VIOLATION property=%s replay=%s  (%s)" % (prop, path, json.dumps({k: v for k, v in r.items() if k != 'ops'})[:300]))
            if len(seen) >= 12:
                break
        return 1, len(unknown), known
    return 0, 0, known


# ------------------------------------------------------------------------------------------
# generic check: a property is served by one or more families (campaigns)
# ------------------------------------------------------------------------------------------
def run_check(prop, tier, seed, fams, technique_note=""):
    """fams: list of family modules. Each provides
         campaign(tier, seed) -> dict(records=[...], states, transitions, traces, samples, detail)
         props_of(rec) -> set of property ids
         write_replay(rec, tier, path) -> writes a replay file for the record's case"""
    t0 = time.time()
    recs = []
    cov = {"states": 0, "transitions": 0, "traces_validated_against_impl": 0, "samples": [],
           "families": {}}
    for fam in fams:
        res = fam.campaign(tier, seed)
        mine = [dict(r, fam=fam.NAME) for r in res["records"]
                if (r.get("c") in ABORT_CLASSES and prop in getattr(fam, "SERVES", fam.PROPS)) or
                   (r.get("c") not in ABORT_CLASSES and prop in fam.props_of(r))]
        recs += mine
        cov["states"] += res["states"]
        cov["transitions"] += res["transitions"]
        cov["traces_validated_against_impl"] += res["traces"]
        cov["samples"] += res.get("samples_by_prop", {}).get(prop, res["samples"])[:2]
        cov["families"][fam.NAME] = dict(res.get("detail", {}), campaign_wall_s=res.get("wall_s"),
                                         records_for_property=len(mine),
                                         relevant_cases=res.get("relevant", {}).get(prop))
    by_name = {f.NAME: f for f in fams}

    def write_replay(r):
        d = os.path.join(WORK, "replay")
        os.makedirs(d, exist_ok=True)
        p = os.path.join(d, "%s-%s-%s.json" % (prop, r["fam"], r.get("tr")))
        by_name[r["fam"]].write_replay(r, tier, p)
        return p

    findings = load_findings()
    rc, n_unknown, known = finish(prop, recs, findings, write_replay)
    cov["records_for_property"] = len(recs)
    cov["known_finding_hits"] = {k: v[1] for k, v in known.items()}
    cov["unlisted_records"] = n_unknown
    cov["rule"] = ("TLC enumerates the case space of each family within the stated bounds (exhaustive) plus "
                   "seeded random cases where stated; every case is executed on the real wirm API and the "
                   "recorded execution is judged by the Ideal trace specification")
    cov["exhaustive"] = True
    write_evidence(prop, tier, seed, cov,
                   ["wasmparser decoder/validator, wasm-encoder and wat (input construction), the projection "
                    "alpha of the harness and TLC are trusted",
                    "bounds are small; see coverage.families.*",
                    "a public call that panics is a rejected call (DESIGN.md B.4)"] +
                   ([technique_note] if technique_note else []),
                   time.time() - t0, n_unknown)
    return rc


def simple_campaign(name, tier, seed, mc_module, mc_cfg_text, harness_args, trace_module, flatten,
                    detail=None, relevant=None, extra_cases=None, mc_workers=4, tv_workers=4):
    """The common pipeline: TLC generator -> cases -> harness -> trace -> TLC judge -> records.
    harness_args: list; the tokens CASES / TRACE / SEED are substituted. flatten(verdict)->record."""
    with Stage(name, tier, seed) as st:
        if st.fresh():
            return st.load()
        t0 = time.time()
        build_harness()
        cfg = st.path(mc_module + ".cfg")
        open(cfg, "w").write(mc_cfg_text)
        mc_out = st.path("mc.out")
        mc = run_tlc(mc_module, cfg, mc_out, workers=mc_workers, timeout=6000)
        if not mc["ok"]:
            raise ToolError("%s did not complete cleanly: %s" % (mc_module, mc["error"]))
        cases = st.path("cases.ndjson")
        n = extract_cases(mc_out, cases)
        os.remove(mc_out)
        if extra_cases:
            with open(cases, "a") as f:
                for i, c in enumerate(extra_cases):
                    c = dict(c, id=n + 1 + i)
                    f.write(json.dumps(c) + "\n")
        trace = st.path("trace.ndjson")
        hstat, aborts = run_harness(
            lambda c, t, tag: [[BIN] + [c if a == "CASES" else t if a == "TRACE" else str(seed) if a == "SEED" else a
                                        for a in harness_args]], cases, trace)
        tv_out = st.path("tv.out")
        tv = run_tlc_trace(trace_module, os.path.join(SPEC, trace_module + ".cfg"), trace, tv_out,
                           workers=max(1, tv_workers // 2), chunk=40000, par=4, timeout=6000)
        if not tv["ok"]:
            raise ToolError("%s did not complete: %s" % (trace_module, tv["error"]))
        seen, recs = set(), []
        for v in tagged(tv_out, "VERDICT"):
            r = flatten(v)
            k = json.dumps(r, sort_keys=True)
            if k not in seen:
                seen.add(k)
                recs.append(r)
        recs += aborts
        drift = sum(1 for _ in tagged(tv_out, "SPEC-DRIFT"))
        os.remove(tv_out)
        samples = []
        with open(cases) as f:
            for i, l in enumerate(f):
                if i in (1, n // 2, max(n - 2, 0)):
                    samples.append(json.loads(l))
        res = {"records": recs, "states": mc["distinct"] + tv["distinct"], "transitions": mc["generated"] + tv["generated"],
               "traces": hstat.get("cases", n), "samples": samples, "relevant": relevant(cases) if relevant else {},
               "detail": dict(detail or {}, generated_cases=n, harness=hstat, spec_drift=drift),
               "wall_s": round(time.time() - t0, 1)}
        st.store(res)
        return res


def simple_replay(name, prop, path, harness_args, trace_module, flatten, props_of):
    rp = json.load(open(path))
    build_harness()
    d = os.path.join(WORK, "replay-run")
    os.makedirs(d, exist_ok=True)
    cases = os.path.join(d, name + "-cases.ndjson")
    c = dict(rp["case"] or {}, id=1)
    open(cases, "w").write(json.dumps(c) + "\n")
    trace = os.path.join(d, name + "-trace.ndjson")
    args = [BIN] + [cases if a == "CASES" else trace if a == "TRACE" else "1" if a == "SEED" else a for a in harness_args]
    if replay_abort(prop, path, [args]):
        return 1
    tv_out = os.path.join(d, name + "-tv.out")
    tv = run_tlc(trace_module, os.path.join(SPEC, trace_module + ".cfg"), tv_out, workers=1, env={"TRACE": trace}, timeout=600)
    print("CASE", open(trace).read()[:3000])
    recs = [dict(flatten(v), fam=name) for v in tagged(tv_out, "VERDICT")]
    recs = [r for r in recs if prop in props_of(r)]
    rc, n, known = finish(prop, recs, load_findings(), lambda r: path)
    return rc


def replay_abort(prop, path, argvs, timeout=120):
    """run the harness command(s) of a replay; if the process dies or hangs, that is the violation being replayed"""
    for argv in argvs:
        try:
            p = subprocess.run(argv, stdout=subprocess.PIPE, stderr=subprocess.STDOUT, text=True, timeout=timeout)
        except subprocess.TimeoutExpired:
            print("VIOLATION property=%s replay=%s  (process_hang: no result after %ss)" % (prop, path, timeout))
            return True
        if p.returncode != 0:
            print("VIOLATION property=%s replay=%s  (process_abort: exit %s: %s)" % (prop, path, p.returncode, (p.stdout or "")[-300:].replace("\n", " | ")))
            return True
    return False


def stage_case(name, tier, tr):
    p = os.path.join(WORK, "stage", name + "-" + tier, "cases.ndjson")
    with open(p) as f:
        for l in f:
            c = json.loads(l)
            if c.get("id") == tr:
                return c
    return None
