#!/usr/bin/env python3
"""Regenerate the machine-derived parts of DESIGN.md: the seeded-change table (section 12) and the defect lists (section 13)."""
import json, glob, os, re
ROOT = os.path.dirname(os.path.dirname(os.path.abspath(__file__)))
p = os.path.join(ROOT, 'DESIGN.md')
s = open(p).read()
rows = []
for d in sorted(glob.glob(os.path.join(ROOT, 'seeded/*/'))):
    m = json.load(open(d + 'meta.json'))
    v = m.get('verified_by_main', {})
    summ = m.get('summary', '').replace('\n', ' ').replace('|', '/')
    if len(summ) > 230:
        summ = summ[:227] + '...'
    rows.append('| `%s` | %s | %s | %s |' % (os.path.basename(d[:-1]), summ, ', '.join(v.get('caught_by') or []), (v.get('note') or '').replace('|', '/')))
table = '| seeded change | what it does | caught by | note |\n|---|---|---|---|\n' + '\n'.join(rows) + '\n'
s = re.sub(r'\| seeded change \| what it does \| caught by \| note \|\n\|---\|---\|---\|---\|\n(\|.*\n)*', lambda m: table, s)
k = json.load(open(os.path.join(ROOT, 'known_findings.json')))
fixed = [f for f in k['findings'] if f['status'] == 'fixed']
openf = [f for f in k['findings'] if f['status'] != 'fixed']
fx = '\n'.join('* %s' % f['line'] for f in fixed) + '\n'
op = '\n'.join('* **%s** (%s): %s' % (f['id'], ', '.join(f.get('properties', [f['property']])), f['what']) for f in openf) + '\n'
s = re.sub(r'(`known_findings.json` suppress nothing\):\n\n)(\* .*\n)*', lambda m: m.group(1) + fx, s)
s = re.sub(r'(outside the listed signature is still a VIOLATION\):\n\n)(\* .*\n)*', lambda m: m.group(1) + op, s)
open(p, 'w').write(s)
print('seeded:', len(rows), 'fixed:', len(fixed), 'open:', len(openf))
