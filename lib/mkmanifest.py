#!/usr/bin/env python3
"""Regenerate MANIFEST.json from the table below (run by hand after adding a check)."""
import json, os, subprocess
ROOT = os.path.dirname(os.path.dirname(os.path.abspath(__file__)))
props = [json.loads(l)["id"] for l in open(os.path.join(ROOT, "properties.jsonl"))]

TRUST = ("trusted: wasmparser (independent decoder + validator), wasm-encoder/wat (input construction), the token "
         "scheme alpha of the harness, TLC; bounds are small; a public call that panics counts as rejected (DESIGN.md B.4)")

MODULE_TECH = ("TLA+ model checking (MC_Module.tla enumerates every edit history up to the bound over ModuleIdeal.tla) "
               "+ replay of each TLC behaviour on the real API + TLC trace validation of the recorded executions "
               "against the Ideal spec (ModuleTrace.tla)")

CHECKS = {
 "C04": ("module-family", MODULE_TECH, "every history of the module family is re-executed in the same process and in a second process and the encoded bytes compared; the trace spec rejects any encode event flagged nondeterministic. Shapes include structurally duplicate types.", "DESIGN.md 6 C04, 4.4"),
 "C05": ("module-family", MODULE_TECH, "after every first encode of every enumerated history the module is encoded again and the bytes compared (same2), judged by ModuleTrace.Encode", "DESIGN.md 6 C05, 4.4"),
 "C06": ("module-family", MODULE_TECH, "bounded-exhaustive over function-space edit histories (add local/import, delete, convert, replace, rename, inject call, add/delete export); every reference site of every real encode is decoded to the token it designates and compared with the token the caller's ID designated", "DESIGN.md 6 C06, B.3"),
 "C07": ("module-family", MODULE_TECH, "as C06 for the global index space (module- and iterator-level add_global, add_imported_global, delete, re-initialise, injected global.get; exports, initialiser and offset global.get sites)", "DESIGN.md 6 C07"),
 "C08": ("module-family", MODULE_TECH, "as C06 for the memory index space; sites cover plain, bulk, atomic (load/store/rmw/cmpxchg/notify) and v128 memory instructions, exports and active data segments", "DESIGN.md 6 C08"),
 "C09": ("module-family", MODULE_TECH, "ExactDeletion (live tokens exactly once in the decoded index spaces) and LoudOnDangling (a live-owner site whose target was deleted must make encode panic or be absent) over all enumerated histories containing a delete", "DESIGN.md 6 C09"),
 "C10": ("module-family", MODULE_TECH, "histories whose structural edits are replace_import_in_module (every function import as target, non-function imports interleaved), judged by RefIntegrity/entity conjuncts with the Ideal Retarget operator", "DESIGN.md 6 C10"),
 "C11": ("module-family", MODULE_TECH, "histories of convert_local_fn_to_import in every order, interleaved with add_import_func, judged by RefIntegrity/entity conjuncts with the Ideal Retarget operator", "DESIGN.md 6 C11"),
 "C29": ("module-family", MODULE_TECH, "decoded function/local/global/memory name maps are read through the output's own index->token map and compared with the expected partial name map of the Ideal state at every encode", "DESIGN.md 6 C29"),
}

LOWER_TECH = ("TLA+ model checking: MC_Lower.tla enumerates every well-nested function body up to the bound with every "
              "applicable instrumentation plan; each case is instrumented and encoded by the real library (replay); "
              "LowerTrace.tla validates the result: exact splice for C15/C21, and EXECUTION of the lowered body by the "
              "Exec.tla semantics on every decision/trap path in lock-step with the ideal probe semantics "
              "(ProbeIdeal.tla) on the original body for C16-C20")
LOWER = {
 "C15": "every plan of before/after/alternate/removal injections (1-2 entries exhaustive on small bodies, up to 5 on seeded random larger ones, six API paths incl. ComponentIterator; a replacement and a removal of one instruction in both orders: the last request decides): the decoded output body must equal ProbeIdeal!Splice exactly, locals unchanged",
 "C16": "for plans of neutral probes in all non-replacing modes the lowered body must validate and, on every explored decision/trap path (loops bounded by 2 back-edges), produce the same sequence of original effects, decisions, return value and trap as the original body; before/after probes must fire at the positional moments",
 "C17": "function entry/exit probes: the ideal machine fires entry once before the first original event and exit before ret however reached (fall-through, return, branch to the function label, tail call) and before unreachable / throw, never when an op traps; bodies contain try_table blocks; also on a function that was built and replaced an import in a module without local functions; compared as event logs on every path; results of arity 1 and 2 (multi-value) compared by value",
 "C18": "block-entry probes on block/loop/if/else: ideal fires on entering the body/arm incl. every loop back-edge; compared on every path",
 "C19": "block-exit probes: ideal fires when the body falls through to its own end (if: then-arm to its else/end), never on branches; bodies include constructs nested in if-arms",
 "C20": "semantic-after on block/if/else and on br/br_if/br_table/br_on_null with non-loop targets: ideal fires on arrival after the construct / once per executed branch; compared on every path. br_on_null is covered (references as integers); NOT covered: br_on_non_null / br_on_cast / br_on_cast_fail, whose branches carry a reference to the label (seeded change C20-br-on-cast-fail-fallthrough-dropped is not caught)",
 "C21": "block-alternate on block/loop/if/else (with and without replacement code, with before/after elsewhere): decoded output must equal ProbeIdeal!Splice (region removed, replacement in place)",
 "C22": "every accepted special-mode injection through ModuleIterator, ComponentIterator (each at the current location and through inject_at) and FunctionModifier (location and inject_at) must leave its probe in the encoded body and no 'BUG:' record in the log",
}
for k, v in LOWER.items():
    CHECKS[k] = ("lowering-family", LOWER_TECH, v, "DESIGN.md 6 %s, 4.3, App. B.2" % k)

ITER_TECH = ("TLA+ model checking: MC_Iter.tla enumerates module/component metadata shapes, skip lists, next/reset scripts and "
             "injection plans and checks VisitComplete/VisitOrdered/EndFlags on IterIdeal.tla; each case is replayed on the real "
             "iterators; IterTrace.tla validates every recorded call result against the Ideal visiting order")
CHECKS["C25"] = ("iter-family", ITER_TECH, "ModuleIterator: construction, curr_loc (function, instruction, end flag, operator), every next() result and reset() on all modules with 0-3 local functions of 1-3 instructions, with/without imports, every skip subset (incl. all skipped, first skipped, unknown IDs)", "DESIGN.md 6 C25")
CHECKS["C26"] = ("iter-family", ITER_TECH, "ComponentIterator: same judgement across 1-2 core modules with per-module skip lists (incl. empty modules and skipped trailing functions), plus byte equality of every module encoded after the same plan was applied through a ComponentIterator and through per-module ModuleIterators; in addition the lowering family runs every plan of its comp / comp_at paths (all injection modes incl. the special ones, module wrapped in a component) and LowerTrace requires the encoded module to equal the one the same plan gives through ModuleIterator", "DESIGN.md 6 C26")

CHECKS["C27"] = ("comp-family", "TLA+ model checking: CompNest.tla enumerates nested component trees (depth <= 4), checks that the transcribed "
   "parse algorithm reconstructs every tree from its flat payload stream (Impl => Ideal) and documents the former algorithm's "
   "failure (ASSUME); each tree is built, round-tripped by the real Component::parse/encode (replay) and judged by CompTrace.tla",
   "every tree of <= 5 items (core modules, type definitions, custom sections, nested components) up to nesting depth 4: the output must validate, decode to the same item tree in the same order at every depth, and encode idempotently",
   "DESIGN.md 6 C27")

RT_TECH = ("TLA+ model checking: MC_Rt.tla enumerates every value type x position and every subset of section features and checks the "
           "Impl-shaped DataType conversion against the Ideal (ValTypes.tla); each case and every module of the fixture/.wast corpora is "
           "round-tripped by the real parse/encode (replay); RtTrace.tla validates the recorded results")
CHECKS["C01"] = ("rt-family", RT_TECH, "input validates => parse returns Ok, encode does not panic, output validates; over 4.7k type x position modules, 4096 section-shape modules and ~800 corpus modules/components", "DESIGN.md 6 C01")
CHECKS["C02"] = ("rt-family", RT_TECH, "the output prints (independent printer: abstracts section framing and name-section layout, shows names) to exactly the text of the input; same case space as C01 incl. NaN-payload / v128 / i64-extreme constants", "DESIGN.md 6 C02")
CHECKS["C03"] = ("parse-family", "TLA+ model checking: ParseRobust.tla is an Impl-shaped model of the payload dispatch of parse_internal (every indexing/unwrap site a part), "
   "MC_Parse.tla enumerates part combinations and checks outcome # panic; each is concretised to a binary and parsed by Module::parse and "
   "Component::parse (replay, outcome class compared with the model = drift check); truncations and seeded byte substitutions of those binaries "
   "and of the corpora are parsed too; ParseTrace.tla validates the outcomes",
   "no panic on: all combinations of <= 2 (quick) / 3 (thorough) malformed-or-unusual parts; every truncation at +-1 of every section boundary and seeded single-byte substitutions of ~2k base binaries (85k quick / about 3M thorough parses per API)",
   "DESIGN.md 6 C03, 7")

CONTENT_TECH = ("TLA+ model checking: MC_Content.tla enumerates programs of API calls per group over the list semantics of Content.tla "
                "(IdealOk checked on the model); each program is replayed on the real API with every request rendered independently "
                "(wasm-encoder + wasmparser) and the output decoded; ContentTrace.tla steps Content.tla along the recorded calls and "
                "judges every returned index and the final decoded lists")
CHECKS["C12"] = ("content-family", CONTENT_TECH, "FunctionBuilder programs (3 param lists x 2 result lists x 4 local lists x 11 bodies incl. ones ending in a nested block/loop/if end, named/unnamed, finish_module, finish_component (module inside a component) and replace_import_in_module, on plain and rec-group bases, up to 2 per program, interleaved with add_local on a neighbour and after convert_local_fn_to_import): the function exported under the returned ID must decode to exactly the requested signature, locals, body + end and name", "DESIGN.md 6 C12")
CHECKS["C13"] = ("content-family", CONTENT_TECH, "add_func_type / add_array_type / add_struct_type and their full (final/shared/declared-supertype) variants, up to 3 (quick) / 4 (thorough) per program, on bases with duplicate types and explicit rec groups: returned index designates an equal type, repeated addition returns the same index, the prefix of existing types is unchanged, nothing else is appended", "DESIGN.md 6 C13")
CHECKS["C14"] = ("content-family", CONTENT_TECH, "add_local (i32/f64/v128) through FunctionModifier (one modifier per call and one for many calls), ModuleIterator, and - on the module inside a component - ComponentIterator, on two functions with 4 pre-existing local layouts, up to 3 (quick) / 4 (thorough) calls: returned index = params + declared locals, decoded locals = old ++ added in order", "DESIGN.md 6 C14")
CHECKS["C28"] = ("content-family", CONTENT_TECH, "0-3 custom sections (duplicate names) after, before or spread between the other sections of the base, then add / delete / modify programs: decoded (name, bytes) list of non-name custom sections must equal the Content.tla list, all non-custom sections unchanged", "DESIGN.md 6 C28")
CHECKS["C30"] = ("content-family", CONTENT_TECH, "add_global (i32/i64/f32/f64/v128 extreme and NaN-payload constants, ref.func / ref.null initialisers, both mutabilities), mod_global_init_expr, add_data (active/passive), add_local_memory (with/without max, memory64), add_export_func/mem, interleaved with add_import_memory / add_imported_global / add_import_func (which move every local index; Content.tla FinalIdx maps the returned handles to output indices, also inside ref.func / global.get initialisers, data-segment memory indices and exports), up to 3 (quick) / 4 (thorough) per program: decoded items at the returned IDs must equal the independently rendered request bit for bit, all other items unchanged", "DESIGN.md 6 C30")
CHECKS["C24"] = ("opcode-family", "TLA+ model checking: OpcodeTable.tla (generated from the trait signatures of src/opcode.rs) x OpcodeIdeal.tla give, for every helper and "
   "every immediate-class selection, the instruction the name denotes; MC_Opcode.tla enumerates them (TableOk checked); each is replayed through the real helper on a "
   "FunctionBuilder and a ModuleIterator and the emitted instruction decoded; OpcodeTrace.tla compares it with OpcodeIdeal!Expected",
   "all helper methods of Opcode / MacroOpcode with boundary immediates (0, -1, min, max, NaN payloads, high-bit unsigned constants): decoded operator name and every immediate must equal the expectation bit for bit, and exactly one instruction is appended", "DESIGN.md 6 C24")
CHECKS["C23"] = ("side-family", "TLA+ model checking: MC_Side.tla enumerates histories of tagged/untagged additions (type, import, export, function, global, memory, data) and probes (all modes) and "
   "how the report is pulled; each is replayed on the real API and Module::pull_side_effects() rendered; SideTrace.tla derives from the history the records required (in the final index space) and judges the report",
   "all histories of <= 2 (quick) / 3 (thorough) operations: one record with the tag and content per tagged item, none duplicated, no record for parsed items, no unknown tag; every probe record (also the untagged lowered copies) and the module encoded after the pull use the output index space; two open findings (special-mode probe tags, entry/exit after an encode) are listed in known_findings.json", "DESIGN.md 6 C23")

checks = []
for p in props:
    if p in CHECKS:
        eng, tech, text, ref = CHECKS[p]
        checks.append({
            "property_id": p,
            "quick_cmd": "bin/check %s --tier quick" % p,
            "thorough_cmd": "bin/check %s --tier thorough" % p,
            "evidence_file": "evidence/%s.json" % p,
            "replay_cmd_template": "bin/check %s --replay {path}" % p,
            "engine": eng,
            "technique": tech,
            "level_claimed": {"category": "model_checking", "text": text, "design_ref": ref},
            "level_note": TRUST,
        })
na = [{"property_id": p, "reason": "check not built yet (work in progress; see DESIGN.md section 10)"}
      for p in props if p not in CHECKS]
fix_commits = subprocess.run("git -C /repo log --format=%h --grep='^fix:'", shell=True, stdout=subprocess.PIPE, text=True).stdout.split()
m = {"version": 1,
     "setup_cmd": "cd harness && cargo build --release --offline",
     "hooks": {"guard": "wirm_verif",
               "enable": "RUSTFLAGS=--cfg wirm_verif (set in harness/.cargo/config.toml); no hook was needed: every observation goes through the public API and the encoded bytes",
               "baseline_off_cmd": "cd /repo && cargo test --workspace --no-fail-fast --offline",
               "source_commits": [], "add_only": True},
     "engines": [
        {"name": "module-family", "path": "lib/fam_module.py", "serves_properties": [p for p in props if p in CHECKS and CHECKS[p][0] == "module-family"],
         "kind_free_text": "TLC (MC_Module.tla generator over ModuleIdeal.tla) -> Rust harness replay on the real wirm API -> TLC trace validation (ModuleTrace.tla)"},
        {"name": "lowering-family", "path": "lib/fam_lower.py", "serves_properties": [p for p in props if p in CHECKS and CHECKS[p][0] == "lowering-family"] + ["C04", "C05", "C26"],
         "kind_free_text": "TLC (MC_Lower.tla generator) + seeded random generator -> real injection APIs + encode -> TLC as execution engine (LowerTrace.tla over Exec.tla / ProbeIdeal.tla)"},
        {"name": "iter-family", "path": "lib/fam_iter.py", "serves_properties": ["C25", "C26"],
         "kind_free_text": "TLC (MC_Iter.tla over IterIdeal.tla) -> real ModuleIterator/ComponentIterator -> TLC trace validation (IterTrace.tla)"},
        {"name": "rt-family", "path": "lib/fam_rt.py", "serves_properties": ["C01", "C02", "C03", "C05"],
         "kind_free_text": "TLC (MC_Rt.tla over ValTypes.tla) + fixture corpora -> real parse/encode -> TLC trace validation (RtTrace.tla)"},
        {"name": "parse-family", "path": "lib/fam_parse.py", "serves_properties": ["C03"],
         "kind_free_text": "TLC (MC_Parse.tla over ParseRobust.tla) -> raw-section binaries + seeded truncations/substitutions -> Module::parse/Component::parse -> TLC trace validation (ParseTrace.tla)"},
        {"name": "comp-family", "path": "lib/fam_comp.py", "serves_properties": ["C27"],
         "kind_free_text": "TLC (CompNest.tla) -> wasm-encoder built nested components -> Component::parse/encode -> TLC trace validation (CompTrace.tla)"},
        {"name": "content-family", "path": "lib/fam_content.py", "serves_properties": ["C12", "C13", "C14", "C28", "C30"],
         "kind_free_text": "TLC (MC_Content.tla over Content.tla) -> real builder/type/local/custom/add APIs + independent rendering -> TLC trace validation (ContentTrace.tla)"},
        {"name": "opcode-family", "path": "lib/fam_opcode.py", "serves_properties": ["C24"],
         "kind_free_text": "TLC (MC_Opcode.tla over generated OpcodeTable.tla + OpcodeIdeal.tla) -> real Opcode/MacroOpcode helpers -> TLC trace validation (OpcodeTrace.tla)"},
        {"name": "side-family", "path": "lib/fam_side.py", "serves_properties": ["C23"],
         "kind_free_text": "TLC (MC_Side.tla) -> real tagged additions/probes + pull_side_effects -> TLC trace validation (SideTrace.tla)"}],
     "checks": checks,
     "not_applicable": na,
     "notes": "All checks share one stage cache per family keyed by the hash of /repo/src + Cargo files and of /verif's specs/harness, so the first check of a family pays for the campaign. fix: commits in /repo: " + " ".join(fix_commits)}
json.dump(m, open(os.path.join(ROOT, "MANIFEST.json"), "w"), indent=1)
print("checks:", len(checks), "not_applicable:", len(na))
