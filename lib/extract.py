#!/usr/bin/env python3
"""extract.py TAG tlc.out out.ndjson : pull <<"TAG", "json">> lines printed by TLC into ndjson (adds id)"""
import json,sys
def lines(path,tag):
    pre='<<"%s", "'%tag
    for l in open(path,errors='replace'):
        if l.startswith(pre):
            b=l.rstrip('\n')[len(pre):-len('">>')]
            yield json.loads(b.replace('\\"','"').replace('\\\\','\\'))
if __name__=='__main__':
    n=0
    with open(sys.argv[3],'w') as o:
        for c in lines(sys.argv[2],sys.argv[1]):
            n+=1
            if isinstance(c,dict) and 'id' not in c: c['id']=n
            o.write(json.dumps(c)+'\n')
    print(n)
