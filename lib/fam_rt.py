#!/usr/bin/env python3
"""Round-trip family (C01, C02; contributes to C03 and C05): MC_Rt.tla enumerates every value type x
position and every subset of section features (and checks the Impl-shaped DataType conversion against
the Ideal at the design level); the harness round-trips these and the repository's fixture/.wast
corpora through the real parse/encode; RtTrace.tla judges each result."""
import json, os, time
from vlib import *

NAME = "rt"
PROPS = ["C01", "C02"]
SERVES = PROPS + ["C03", "C05"]


def props_of(r):
    c = r["c"]
    if c == "parse_panic":
        return {"C03"} | ({"C01"} if r.get("valid_in") else set())
    if c in ("parse_rejected_valid", "encode_panic", "invalid_output"):
        return {"C01"}
    if c == "content_differs":
        return {"C02"}
    if c == "second_encode_differs":
        return {"C05"}
    return set()


def campaign(tier, seed):
    with Stage("rt", tier, seed) as st:
        if st.fresh():
            return st.load()
        t0 = time.time()
        build_harness()
        mc_out = st.path("mc.out")
        mc = run_tlc("MC_Rt", os.path.join(SPEC, "MC_Rt.cfg"), mc_out, workers=4, timeout=3000)
        if not mc["ok"]:
            raise ToolError("MC_Rt did not complete cleanly: %s" % mc["error"])
        cases = st.path("cases.ndjson")
        n = extract_cases(mc_out, cases)
        losses = sum(1 for _ in tagged(mc_out, "LOSS"))
        os.remove(mc_out)
        with open(cases, "a") as f:
            f.write(json.dumps({"id": n + 1, "kind": "corpus"}) + "\n")
        trace = st.path("trace.ndjson")
        rc, out, _ = sh([BIN, "rt", "--cases", cases, "--out", trace], timeout=3000)
        if rc != 0:
            raise ToolError("harness failed: " + out[-2000:])
        hstat = json.loads(out.strip().splitlines()[-1])
        tv_out = st.path("tv.out")
        tv = run_tlc_trace("RtTrace", os.path.join(SPEC, "RtTrace.cfg"), trace, tv_out, workers=3, chunk=30000, par=5, timeout=3000)
        if not tv["ok"]:
            raise ToolError("RtTrace did not complete: %s" % tv["error"])
        recs = []
        for v in tagged(tv_out, "VERDICT"):
            r = {"c": v["c"], "tr": v["tr"], "kind": v["kind"], "valid_in": v["valid_in"],
                 "predicted_loss": v["predicted_loss"], "label": v["label"]}
            r.update(v.get("d", {}))
            recs.append(r)
        drift = sum(1 for _ in tagged(tv_out, "SPEC-DRIFT"))
        if drift:
            print("SPEC-DRIFT: %d cases where the Impl-shaped DataType model predicts a loss that the code does not show" % drift)
        os.remove(tv_out)
        kinds = {}
        judged = {}     # cases whose input validates: only these are judged by C01/C02
        samples = []
        with open(trace) as f:
            for i, l in enumerate(f):
                e = json.loads(l)
                kinds[e["kind"]] = kinds.get(e["kind"], 0) + 1
                if e.get("valid_in"):
                    judged[e["kind"]] = judged.get(e["kind"], 0) + 1
                if i in (5, 5000, hstat["cases"] - 3):
                    samples.append({k: e.get(k) for k in ("kind", "label", "parse", "valid_in", "valid_out", "same_text")})
        # vacuity guard: every generated section-shape module must be a valid input (a generator slip once made a
        # quarter of them invalid, i.e. silently unjudged)
        if judged.get("shape", 0) != kinds.get("shape", 0):
            raise ToolError("%d generated shape modules do not validate: generator defect" % (kinds.get("shape", 0) - judged.get("shape", 0)))
        res = {"records": recs, "states": mc["distinct"] + tv["distinct"], "transitions": mc["generated"] + tv["generated"],
               "traces": hstat["cases"], "samples": samples,
               "relevant": {"C01": sum(judged.values()), "C02": sum(judged.values()), "C03": hstat["cases"], "C05": sum(judged.values())},
               "detail": {"cases_by_kind": kinds, "cases_with_valid_input_by_kind": judged, "design_level_losses_listed_by_TLC": losses, "spec_drift": drift,
                          "corpus": "every .wat/.wasm under /repo/tests/test_inputs and every module directive "
                                    "(valid, invalid, malformed) of /repo/tests/wasm-tools/**/*.wast"},
               "wall_s": round(time.time() - t0, 1)}
        st.store(res)
        return res


def write_replay(r, tier, path):
    case = None
    with open(os.path.join(WORK, "stage", "rt-" + tier, "cases.ndjson")) as f:
        for l in f:
            c = json.loads(l)
            if c["id"] == r["tr"]:
                case = c
    if case is None:
        case = {"kind": "corpus", "label": r.get("label")}
    json.dump({"family": "rt", "case": case, "record": r}, open(path, "w"), indent=1)


def replay(prop, path):
    rp = json.load(open(path))
    build_harness()
    d = os.path.join(WORK, "replay-run")
    os.makedirs(d, exist_ok=True)
    cases = os.path.join(d, "rcases.ndjson")
    c = dict(rp["case"]); c["id"] = 1
    open(cases, "w").write(json.dumps(c) + "\n")
    trace = os.path.join(d, "rtrace.ndjson")
    sh([BIN, "rt", "--cases", cases, "--out", trace], timeout=600)
    if c.get("kind") == "corpus":
        keep = [l for l in open(trace) if json.loads(l)["label"] == c.get("label")]
        open(trace, "w").write("".join(keep))
    tv_out = os.path.join(d, "rtv.out")
    run_tlc("RtTrace", os.path.join(SPEC, "RtTrace.cfg"), tv_out, workers=1, env={"TRACE": trace}, timeout=600)
    print("CASE", open(trace).read()[:3000])
    recs = []
    for v in tagged(tv_out, "VERDICT"):
        r = {"c": v["c"], "tr": v["tr"], "kind": v["kind"], "valid_in": v["valid_in"], "predicted_loss": v["predicted_loss"], "fam": NAME}
        r.update(v.get("d", {}))
        recs.append(r)
    recs = [r for r in recs if prop in props_of(r)]
    rc, n, known = finish(prop, recs, load_findings(), lambda r: path)
    return rc
