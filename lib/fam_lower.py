#!/usr/bin/env python3
"""Lowering family (C15-C22, plus C04/C05 over instrumentation plans): MC_Lower.tla enumerates
(body, plan) cases, the harness instruments and encodes them with the real library, LowerTrace.tla
checks the splice (C15/C21), executes the lowered body on every decision path in lock-step with the
ideal probe semantics (C16-C20) and checks that nothing accepted was lost (C22)."""
import json, os, time
from vlib import *

NAME = "lower"
PROPS = ["C15", "C16", "C17", "C18", "C19", "C20", "C21", "C22"]
SERVES = PROPS + ["C04", "C05", "C26"]

MODE_PROP = {"func_entry": "C17", "func_exit": "C17", "block_entry": "C18", "block_exit": "C19",
             "semantic_after": "C20", "before": "C16", "after": "C16"}
SIMPLE = {"before", "after", "alternate", "empty_alternate"}
ALT = {"block_alt", "empty_block_alt"}


def props_of(r):
    """plans that inject through a ComponentIterator are judged against the Ideal like all others (C15-C22) and, for
    C26, their encoded module is compared with the one the same plan gives through ModuleIterator"""
    if r["c"] == "component_differs_from_module":
        return {"C26"}
    return _props_of(r)


def _props_of(r):
    c = r["c"]
    modes = set(r.get("modes", []))
    out = set()
    if c == "nondeterministic":
        return {"C04"}
    if c == "second_encode_differs":
        return {"C05"}
    if c in ("lost_injection", "bug_log"):
        return set() if r.get("overlap") else {"C22"}
    if c == "code_of_removed_region_left":
        return {MODE_PROP.get(r.get("mode"), "C21")}
    if c == "probe_mismatch":
        out.add(MODE_PROP.get(r.get("mode"), "C16"))
        if r.get("mode") in ("before", "after"):
            out.add("C16")
            out.add("C15")      # before/after code that fires at another moment is not where C15 puts it either
        return out
    if c in ("splice", "locals_changed"):
        if modes & ALT:
            out.add("C21")
        if modes <= SIMPLE or not (modes & ALT):
            out.add("C15")
        return out
    # invalid / encode_panic / foreign / exec_stuck / orig_events_differ / flag_local_not_fresh
    special = {MODE_PROP[m] for m in modes if m in MODE_PROP and m not in ("before", "after")}
    if modes <= SIMPLE | ALT:
        if modes & ALT:
            out.add("C21")
        else:
            out.add("C15")
    else:
        out.add("C16")
        if len(special) == 1:      # attributable to one special mode only when it is the only one
            out |= special
    return out


def flat(v):
    r = {"c": v["c"], "tr": v["tr"], "modes": sorted(v.get("modes", [])), "apis": sorted(v.get("apis", [])),
         "overlap": v.get("overlap", False), "sa_arms": v.get("sa_arms", 0)}
    for k, val in v.get("d", {}).items():
        if k in ("ideal", "low"):
            val = " ".join(val)
        r[k] = val
    return r


def campaign(tier, seed):
    with Stage("lower", tier, seed) as st:
        if st.fresh():
            return st.load()
        t0 = time.time()
        build_harness()
        maxlen, pairs, nrand, rlen = (5, 3, 8000, 16) if tier == "quick" else (6, 4, 100000, 28)
        cfg = st.path("MC_Lower.cfg")
        open(cfg, "w").write(
            "SPECIFICATION Spec\nCONSTANTS MaxLen = %d\n MaxDepth = 2\n MaxPlan = 2\n MaxLenPairs = %d\n"
            "INVARIANTS BodyOk SpliceIdentity EmitCase\nCHECK_DEADLOCK FALSE\n" % (maxlen, pairs))
        mc_out = st.path("mc.out")
        mc = run_tlc("MC_Lower", cfg, mc_out, workers=8, timeout=3000)
        if not mc["ok"]:
            raise ToolError("MC_Lower did not complete cleanly: %s" % mc["error"])
        cases = st.path("cases.ndjson")
        n_mc = extract_cases(mc_out, cases)
        os.remove(mc_out)
        # seeded random cases on larger bodies (same plan rules), appended with following ids
        rnd = st.path("cases_rand.ndjson")
        rc, out, _ = sh([BIN, "lower-gen", "--seed", str(seed), "--n", str(nrand), "--max-len", str(rlen),
                         "--max-depth", "3", "--start-id", str(n_mc + 1), "--out", rnd], timeout=600)
        if rc != 0:
            raise ToolError("lower-gen failed: " + out[-2000:])
        with open(cases, "a") as f:
            f.write(open(rnd).read())
        trace = st.path("trace.ndjson")
        hstat, aborts = run_harness(lambda c, t, tag: [[BIN, "lower", "--cases", c, "--out", t, "--reps", "2"]],
                                    cases, trace, chunk=8000, par=6)
        tv_out = st.path("tv.out")
        tv = run_tlc_trace("LowerTrace", os.path.join(SPEC, "LowerTrace.cfg"), trace, tv_out, workers=3,
                           chunk=12000, par=5, timeout=6000)
        if not tv["ok"]:
            raise ToolError("LowerTrace did not complete: %s" % tv["error"])
        seen, recs = set(), []
        for v in tagged(tv_out, "VERDICT"):
            r = flat(v)
            key = json.dumps(r, sort_keys=True)
            if key not in seen:
                seen.add(key)
                recs.append(r)
        recs += aborts
        os.remove(tv_out)
        samples = []
        with open(cases) as f:
            for i, l in enumerate(f):
                if i in (10, n_mc // 2, n_mc + 5):
                    samples.append(json.loads(l))
        # how many cases exercise each property's mode(s)
        relevant = {p: 0 for p in SERVES}
        with open(cases) as f:
            for l in f:
                pl = json.loads(l)["plan"]
                ms = {e["mode"] for e in pl}
                if any(str(e.get("api", "")).startswith("comp") for e in pl):
                    relevant["C26"] += 1
                for m in ms:
                    if m in MODE_PROP:
                        relevant[MODE_PROP[m]] += 1
                if ms <= SIMPLE:
                    relevant["C15"] += 1
                if ms & ALT:
                    relevant["C21"] += 1
                if ms - SIMPLE:
                    relevant["C22"] += 1
                relevant["C04"] += 1
                relevant["C05"] += 1
        res = {"records": recs, "states": mc["distinct"] + tv["distinct"],
               "transitions": mc["generated"] + tv["generated"], "traces": hstat["cases"] - hstat["skipped"],   # incl. derived second-encode cases
               "samples": samples, "relevant": relevant,
               "detail": {"model_checking": {"MaxLen": maxlen, "MaxDepth": 2, "MaxPlan": 2, "MaxLenPairs": pairs,
                                             "cases": n_mc, "distinct": mc["distinct"]},
                          "random_cases": nrand, "random_max_len": rlen, "skipped_invalid_inputs": hstat["skipped"],
                          "exec_states": tv["distinct"], "fuel_back_edges": 2},
               "wall_s": round(time.time() - t0, 1)}
        st.store(res)
        return res


def case_of(tier, tr):
    with open(os.path.join(WORK, "stage", "lower-" + tier, "cases.ndjson")) as f:
        for l in f:
            c = json.loads(l)
            if c["id"] == tr % 10000000:      # derived second-encode cases carry id + 10^7
                return c
    return None


def write_replay(r, tier, path):
    json.dump({"family": "lower", "case": case_of(tier, r["tr"]), "record": r}, open(path, "w"), indent=1)


def replay(prop, path):
    rp = json.load(open(path))
    build_harness()
    d = os.path.join(WORK, "replay-run")
    os.makedirs(d, exist_ok=True)
    case = rp["case"]
    cases = os.path.join(d, "lcases.ndjson")
    open(cases, "w").write(json.dumps(case) + "\n")
    trace = os.path.join(d, "ltrace.ndjson")
    rc, out, _ = sh([BIN, "lower", "--cases", cases, "--out", trace, "--reps", "3"], timeout=600)
    if rc != 0:
        raise ToolError("harness failed: " + out[-2000:])
    tv_out = os.path.join(d, "ltv.out")
    tv = run_tlc("LowerTrace", os.path.join(SPEC, "LowerTrace.cfg"), tv_out, workers=2,
                 env={"TRACE": trace}, timeout=600)
    if not tv["ok"]:
        raise ToolError("LowerTrace failed: %s" % tv["error"])
    print("CASE", open(trace).read()[:3000])
    recs = [dict(flat(v), fam=NAME) for v in tagged(tv_out, "VERDICT")]
    recs = [r for r in recs if prop in props_of(r)]
    rc, n, known = finish(prop, recs, load_findings(), lambda r: path)
    return rc
