#!/usr/bin/env python3
"""summ.py STAGE_RESULT.json [prop] : summarise verdict records by class"""
import json,sys,collections
sys.path.insert(0,'/verif/lib')
import fam_module
res=json.load(open(sys.argv[1]))
prop=sys.argv[2] if len(sys.argv)>2 else None
cnt=collections.Counter(); ex={}; trs=collections.defaultdict(set)
for r in res['records']:
    if prop and prop not in fam_module.props_of(r): continue
    key=(r['camp'],r['c'],r.get('sp'),r.get('sk'),r.get('org'),r.get('kind'),tuple(fam_module.structural(r['ops'])))
    cnt[key]+=1; ex.setdefault(key,r); trs[key].add(r['tr'])
for k,n in sorted(cnt.items(), key=lambda x:(x[0][0],x[0][1],-x[1])): print(n,len(trs[k]),k,'tr',ex[k]['tr'],{a:b for a,b in ex[k].items() if a in('msg','err','want','got')})
