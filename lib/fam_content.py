#!/usr/bin/env python3
"""Content family (C12, C13, C14, C28, C30): MC_Content.tla enumerates programs of additions per API group;
the harness runs them on the real API, renders every request independently (wasm-encoder + wasmparser) and
decodes the output; ContentTrace.tla checks returned indices and the decoded lists against Content.tla."""
import json, os, time
from vlib import *

NAME = "content"
PROPS = ["C12", "C13", "C14", "C28", "C30"]
SERVES = PROPS
CAMPS = {"locals": "C14", "build": "C12", "types": "C13", "adds": "C30", "customs": "C28"}
HARNESS = ["content", "--cases", "CASES", "--out", "TRACE"]


def props_of(r):
    return {CAMPS[r["camp"]]}


def flatten(v):
    r = {"c": v["c"], "tr": v["tr"], "k": v.get("k")}
    for kk, val in v.get("d", {}).items():
        r[kk] = val if not isinstance(val, (dict, list)) else json.dumps(val)
    return r


def campaign(tier, seed):
    with Stage("content", tier, seed) as st:
        if st.fresh():
            return st.load()
        t0 = time.time()
    res = {"records": [], "states": 0, "transitions": 0, "traces": 0, "samples": [], "samples_by_prop": {}, "relevant": {},
           "detail": {"campaigns": {}}}
    for camp, prop in CAMPS.items():
        maxops = (2 if camp == "build" else 3) if tier == "quick" else (2 if camp == "build" else 4)
        sub = simple_campaign("content_" + camp, tier, seed, "MC_Content",
                              'SPECIFICATION Spec\nCONSTANTS Camp = "%s"\n MaxOps = %d\nINVARIANTS IdealOk EmitCase\nCHECK_DEADLOCK FALSE\n' % (camp, maxops),
                              HARNESS, "ContentTrace", flatten, mc_workers=8, tv_workers=8)
        for r in sub["records"]:
            res["records"].append(dict(r, camp=camp))
        res["states"] += sub["states"]
        res["transitions"] += sub["transitions"]
        res["traces"] += sub["traces"]
        res["samples"] += sub["samples"][:1]
        res["samples_by_prop"][prop] = sub["samples"][1:3]
        res["relevant"][prop] = sub["detail"]["generated_cases"]
        res["detail"]["campaigns"][camp] = {"programs": sub["detail"]["generated_cases"], "MaxOps": maxops, "wall_s": sub["wall_s"]}
    res["wall_s"] = sum(c["wall_s"] for c in res["detail"]["campaigns"].values())
    return res


def write_replay(r, tier, path):
    json.dump({"family": NAME, "camp": r["camp"], "case": stage_case("content_" + r["camp"], tier, r["tr"]), "record": r},
              open(path, "w"), indent=1)


def replay(prop, path):
    camp = json.load(open(path)).get("camp", "locals")
    return simple_replay(NAME, prop, path, HARNESS, "ContentTrace", lambda v: dict(flatten(v), camp=camp), props_of)
