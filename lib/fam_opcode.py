#!/usr/bin/env python3
"""Opcode helpers (C24): MC_Opcode.tla enumerates helper x immediate-class selection x injection path over
OpcodeTable.tla / OpcodeIdeal.tla; the harness calls the real helper and decodes the emitted instruction;
OpcodeTrace.tla compares it with OpcodeIdeal!Expected."""
import json
from vlib import *

NAME = "opcode"
PROPS = ["C24"]
SERVES = PROPS
HARNESS = ["opcode", "--cases", "CASES", "--out", "TRACE"]


def props_of(r):
    return {"C24"}


def flatten(v):
    r = {"c": v["c"], "tr": v["tr"]}
    r.update(v.get("d", {}))
    return r


def campaign(tier, seed):
    return simple_campaign(NAME, tier, seed, "MC_Opcode",
                           "SPECIFICATION Spec\nINVARIANTS TableOk EmitCase\nCHECK_DEADLOCK FALSE\n",
                           HARNESS, "OpcodeTrace", flatten,
                           detail={"helpers": 200, "paths": ["FunctionBuilder", "ModuleIterator before()"],
                                   "note": "TLC supplies enumeration and the expected table; the decision is conformance of the real helper output"},
                           relevant=lambda cases: {"C24": sum(1 for _ in open(cases))})


def write_replay(r, tier, path):
    json.dump({"family": NAME, "case": stage_case(NAME, tier, r["tr"]), "record": r}, open(path, "w"), indent=1)


def replay(prop, path):
    return simple_replay(NAME, prop, path, HARNESS, "OpcodeTrace", flatten, props_of)
