#!/usr/bin/env python3
"""Side-effect report (C23): MC_Side.tla enumerates histories of tagged / untagged additions and probes and
how the report is pulled; the harness runs them on the real API and renders Module::pull_side_effects();
SideTrace.tla derives the records the history requires (final index space) and judges the report."""
import json
from vlib import *

NAME = "side"
PROPS = ["C23"]
SERVES = PROPS
HARNESS = ["side", "--cases", "CASES", "--out", "TRACE"]


def props_of(r):
    return {"C23"}


def flatten(v):
    r = {"c": v["c"], "tr": v["tr"], "how": v.get("how")}
    for kk, val in v.get("d", {}).items():
        r[kk] = val if not isinstance(val, (dict, list)) else json.dumps(val)
    return r


def campaign(tier, seed):
    maxops = 2 if tier == "quick" else 3
    return simple_campaign(NAME, tier, seed, "MC_Side",
                           "SPECIFICATION Spec\nCONSTANTS MaxOps = %d\nINVARIANTS EmitCase\nCHECK_DEADLOCK FALSE\n" % maxops,
                           HARNESS, "SideTrace", flatten, mc_workers=8, tv_workers=8,
                           detail={"MaxOps": maxops, "pull": ["pull", "encode_then_pull"]},
                           relevant=lambda cases: {"C23": sum(1 for _ in open(cases))})


def write_replay(r, tier, path):
    json.dump({"family": NAME, "case": stage_case(NAME, tier, r["tr"]), "record": r}, open(path, "w"), indent=1)


def replay(prop, path):
    return simple_replay(NAME, prop, path, HARNESS, "SideTrace", flatten, props_of)
