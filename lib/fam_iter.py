#!/usr/bin/env python3
"""Iterator family (C25, C26): MC_Iter.tla enumerates module/component shapes, skip lists, scripts of
next/reset and injection plans; the harness runs them on ModuleIterator / ComponentIterator; IterTrace.tla
judges every recorded result against IterIdeal.Visit."""
import json, os, time
from vlib import *

NAME = "iter"
PROPS = ["C25", "C26"]
SERVES = PROPS


def props_of(r):
    if r["kind"] == "module":
        return {"C25"}
    return {"C26"}


def campaign(tier, seed):
    with Stage("iter", tier, seed) as st:
        if st.fresh():
            return st.load()
        t0 = time.time()
        build_harness()
        mf, mi, mm = (3, 3, 2) if tier == "quick" else (4, 3, 3)
        cfg = st.path("MC_Iter.cfg")
        open(cfg, "w").write("SPECIFICATION Spec\nCONSTANTS MaxFuncs = %d\n MaxInstr = %d\n MaxMods = %d\n"
                             "INVARIANTS VisitComplete VisitOrdered EndFlags EmitCase\nCHECK_DEADLOCK FALSE\n" % (mf, mi, mm))
        # design level: the Impl-shaped sub-iterators (IterImpl.tla, current code) refine the Ideal visiting order on
        # every module shape x skip set; the former code's failures are ASSUME witnesses in that module
        icfg = st.path("MC_IterImpl.cfg")
        open(icfg, "w").write("SPECIFICATION Spec\nCONSTANTS MaxFuncs = %d\n MaxInstr = %d\nINVARIANTS Refines ResetOk\nCHECK_DEADLOCK FALSE\n" % (mf, mi))
        iout = st.path("iterimpl.out")
        im = run_tlc("MC_IterImpl", icfg, iout, workers=8, timeout=6000)
        if not im["ok"]:
            raise ToolError("MC_IterImpl: the transcribed sub-iterators do not refine the Ideal: %s" % im["error"])
        os.remove(iout)
        mc_out = st.path("mc.out")
        mc = run_tlc("MC_Iter", cfg, mc_out, workers=8, timeout=6000)
        if not mc["ok"]:
            raise ToolError("MC_Iter did not complete cleanly: %s" % mc["error"])
        cases = st.path("cases.ndjson")
        n = extract_cases(mc_out, cases)
        os.remove(mc_out)
        trace = st.path("trace.ndjson")
        hstat, aborts = run_harness(lambda c, t, tag: [[BIN, "iter", "--cases", c, "--out", t]], cases, trace, chunk=8000, par=6)
        tv_out = st.path("tv.out")
        tv = run_tlc_trace("IterTrace", os.path.join(SPEC, "IterTrace.cfg"), trace, tv_out, workers=3,
                           chunk=30000, par=5, timeout=6000)
        if not tv["ok"]:
            raise ToolError("IterTrace did not complete: %s" % tv["error"])
        seen, recs = set(), []
        for v in tagged(tv_out, "VERDICT"):
            r = {"c": v["c"], "tr": v["tr"], "kind": v["kind"], "nvisit": v["nvisit"], "k": v["k"]}
            if r["kind"] == "inj":
                r["kind"] = "component"
            for kk, val in v.get("d", {}).items():
                r[kk] = val if not isinstance(val, dict) else json.dumps(val)
            key = json.dumps(r, sort_keys=True)
            if key not in seen:
                seen.add(key)
                recs.append(r)
        recs += aborts
        os.remove(tv_out)
        samples, rel = [], {"C25": 0, "C26": 0}
        with open(cases) as f:
            for i, l in enumerate(f):
                c = json.loads(l)
                rel["C25" if c["kind"] == "module" else "C26"] += 1
                if i in (3, n // 2, n - 2):
                    samples.append(c)
        res = {"records": recs, "states": mc["distinct"] + tv["distinct"] + im["distinct"], "transitions": mc["generated"] + tv["generated"],
               "traces": hstat["cases"] - hstat["skipped"], "samples": samples, "relevant": rel,
               "detail": {"model_checking": {"MaxFuncs": mf, "MaxInstr": mi, "MaxMods": mm, "cases": n,
                                             "invariants": ["VisitComplete", "VisitOrdered", "EndFlags"]}},
               "wall_s": round(time.time() - t0, 1)}
        st.store(res)
        return res


def case_of(tier, tr):
    with open(os.path.join(WORK, "stage", "iter-" + tier, "cases.ndjson")) as f:
        for l in f:
            c = json.loads(l)
            if c["id"] == tr:
                return c


def write_replay(r, tier, path):
    json.dump({"family": "iter", "case": case_of(tier, r["tr"]), "record": r}, open(path, "w"), indent=1)


def replay(prop, path):
    rp = json.load(open(path))
    build_harness()
    d = os.path.join(WORK, "replay-run")
    os.makedirs(d, exist_ok=True)
    cases = os.path.join(d, "icases.ndjson")
    open(cases, "w").write(json.dumps(rp["case"]) + "\n")
    trace = os.path.join(d, "itrace.ndjson")
    rc, out, _ = sh([BIN, "iter", "--cases", cases, "--out", trace], timeout=600)
    tv_out = os.path.join(d, "itv.out")
    tv = run_tlc("IterTrace", os.path.join(SPEC, "IterTrace.cfg"), tv_out, workers=1, env={"TRACE": trace}, timeout=600)
    if not tv["ok"]:
        raise ToolError("IterTrace failed: %s" % tv["error"])
    print("CASE", open(trace).read()[:3000])
    recs = []
    for v in tagged(tv_out, "VERDICT"):
        r = {"c": v["c"], "tr": v["tr"], "kind": "component" if v["kind"] == "inj" else v["kind"], "fam": NAME}
        r.update({k: (x if not isinstance(x, dict) else json.dumps(x)) for k, x in v.get("d", {}).items()})
        recs.append(r)
    recs = [r for r in recs if prop in props_of(r)]
    rc, n, known = finish(prop, recs, load_findings(), lambda r: path)
    return rc
