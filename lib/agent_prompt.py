#!/usr/bin/env python3
"""agent_prompt.py PROP [N]: print the prompt given to a mutant-writing sub-agent (property text only, nothing from /verif)"""
import json,sys
pid=sys.argv[1]; n=sys.argv[2] if len(sys.argv)>2 else ""
wt="/tmp/wt_%s%s"%(pid,n)
for l in open('/verif/properties.jsonl'):
    p=json.loads(l)
    if p['id']==pid: break
print(f"""You are working in a scratch git worktree of the Rust crate `wirm` (GitHub: thesuhas/orca, a WebAssembly module/component transformation library) at {wt}. Work ONLY inside {wt}; never read or touch /repo or /verif. Everything must be done offline (always pass --offline to cargo; no network exists).

A semantic property that users of this library rely on:

  Title: {p['title']}
  Statement: {p['statement']}
  Quantifier: {p.get('quantifier','')}
  Code anchors: {json.dumps(p.get('anchors',{}).get('mechanism',[]))}

YOUR TASK: write a change to the library source (files under {wt}/src only) that BREAKS this property, while
  (a) the crate still compiles, and
  (b) the existing test suite still passes exactly as before. Run `cargo test --workspace --no-fail-fast --offline > /tmp/out_{pid}{n}.txt 2>&1` before and after your change and compare the sets of passing tests (about 45 tests fail already on the unchanged tree because they shell out to a `wasm-tools` binary that is not installed; that is expected - the set of PASSING tests must not shrink). Keep cargo output out of your context: redirect to a file and grep the `test ... ok/FAILED` lines.

The change must be REALISTIC - the kind of slip a maintainer could make in a refactor or an 'optimisation' (an off-by-one, a wrong map used, a dropped case, a condition inverted for one variant, state not updated on one path) - and it must need something SPECIFIC to manifest: a particular multi-step sequence of API calls, an unusual but valid input, a particular ordering, or two cooperating sites that each look fine alone. Do NOT produce a change that ordinary use (e.g. a plain parse + encode of a typical module) would expose at once, and do not simply make a function panic or return garbage unconditionally. Do not add new public API. Keep it small (ideally under 15 changed lines).

Also write a DEMONSTRATION: a new integration test file {wt}/tests/seeded_demo.rs (you may use the dev-dependencies wat, wasmprinter and wasmparser 0.235; build inputs from WAT text with `wat::parse_str`) containing one #[test] that PASSES on the unchanged tree and FAILS with your change applied, and that checks the property in an observable way (decode the encoded bytes with wasmparser / print with wasmprinter and assert on what the indices designate, etc.). Note: bytes passed to `Module::parse` must outlive the module.

Verify all of this yourself: demo passes without the change, fails with it; full suite passing set unchanged with it.

DELIVERABLES (create directory {wt}/seeded):
  {wt}/seeded/patch.diff   - output of `git -C {wt} diff -- src` with your change applied
  {wt}/seeded/demo.rs      - copy of tests/seeded_demo.rs
  {wt}/seeded/meta.json    - {{"property":"{pid}","summary":"<one paragraph: what was changed and why it breaks the property>","needs_to_manifest":"<what specific sequence/input is needed>","commands_run":["..."],"demo_passes_without":true,"demo_fails_with":true,"suite_unchanged":true}}
When done, leave the worktree with the source change REVERTED (`git -C {wt} checkout -- src`) but keep seeded/ and tests/seeded_demo.rs. Finish with a 5-line report: what you changed, what is needed to trigger it, and the verification results. If after a serious attempt you cannot find such a change, say so plainly instead of delivering something that does not meet the conditions.""")
