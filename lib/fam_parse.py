#!/usr/bin/env python3
"""Parse robustness (C03): MC_Parse.tla enumerates part combinations of the Impl-shaped dispatch model
ParseRobust.tla (Impl => Ideal: outcome never "panic"); the harness concretises each to a binary, parses it
with Module::parse and Component::parse, and additionally parses truncations / byte substitutions of
those binaries and of the fixture corpora; ParseTrace.tla judges the recorded outcomes."""
import json, os, time
from vlib import *

NAME = "parse"
PROPS = ["C03"]
SERVES = PROPS


def props_of(r):
    return {"C03"}


def campaign(tier, seed):
    with Stage("parse", tier, seed) as st:
        if st.fresh():
            return st.load()
        t0 = time.time()
        build_harness()
        maxparts, nmut = (2, 24) if tier == "quick" else (3, 800)
        cfg = st.path("MC_Parse.cfg")
        open(cfg, "w").write("SPECIFICATION Spec\nCONSTANT MaxParts = %d\nINVARIANTS NeverPanics EmitCase\nCHECK_DEADLOCK FALSE\n" % maxparts)
        mc_out = st.path("mc.out")
        mc = run_tlc("MC_Parse", cfg, mc_out, workers=4, timeout=3000)
        if not mc["ok"]:
            raise ToolError("MC_Parse did not complete cleanly: %s" % mc["error"])
        cases = st.path("cases.ndjson")
        n = extract_cases(mc_out, cases)
        os.remove(mc_out)
        trace = st.path("trace.ndjson")
        rc, out, _ = sh([BIN, "parse", "--cases", cases, "--out", trace, "--seed", str(seed), "--mutations", str(nmut)], timeout=6000)
        if rc != 0:
            raise ToolError("harness failed: " + out[-2000:])
        hstat = json.loads(out.strip().splitlines()[-1])
        tv_out = st.path("tv.out")
        tv = run_tlc_trace("ParseTrace", os.path.join(SPEC, "ParseTrace.cfg"), trace, tv_out, workers=3, chunk=30000, par=5, timeout=3000)
        if not tv["ok"]:
            raise ToolError("ParseTrace did not complete: %s" % tv["error"])
        recs = []
        for v in tagged(tv_out, "VERDICT"):
            r = {"c": v["c"], "tr": v["tr"], "kind": v["kind"]}
            r.update(v.get("d", {}))
            r["site"] = r.get("msg", "").split(": ")[0]
            recs.append(r)
        drift = sum(1 for _ in tagged(tv_out, "SPEC-DRIFT"))
        if drift:
            print("SPEC-DRIFT: %d model binaries whose outcome class differs from ParseRobust.Outcome" % drift)
        os.remove(tv_out)
        samples = []
        with open(cases) as f:
            for i, l in enumerate(f):
                if i in (7, n // 2, n - 1):
                    samples.append(json.loads(l))
        res = {"records": recs, "states": mc["distinct"] + tv["distinct"], "transitions": mc["generated"] + tv["generated"],
               "traces": n + hstat["mutants"], "samples": samples, "relevant": {"C03": n + hstat["mutants"]},
               "detail": {"model_binaries": n, "MaxParts": maxparts, "mutated_binaries_parsed": hstat["mutants"],
                          "mutations_per_base": nmut, "panic_sites_found": hstat["panic_sites"], "spec_drift": drift,
                          "apis": ["Module::parse", "Component::parse"]},
               "wall_s": round(time.time() - t0, 1)}
        st.store(res)
        return res


def write_replay(r, tier, path):
    json.dump({"family": "parse", "hex": r.get("hex"), "record": r}, open(path, "w"), indent=1)


def replay(prop, path):
    rp = json.load(open(path))
    print("replay: parse the bytes in 'hex' with Module::parse and Component::parse:", (rp.get("hex") or "")[:200])
    print(json.dumps(rp.get("record"))[:600])
    return 1
